"""Native replay of one obligation with concrete witness values (no symbolic engine is imported).

stdin: {"module": "props.c06", "oid": "...", "witness": {...}}
stdout (last line): {"failures": [...]}  - empty list means the property held in the replay.
"""
from __future__ import annotations

import importlib
import json
import os
import sys
import traceback


def replay(module: str, oid: str, witness: dict) -> dict:
    from . import env
    from .sym import Ctx, ReplayOutOfBounds

    mod = importlib.import_module(module)
    obs = [o for o in mod.obligations('thorough') if o.oid == oid] or [o for o in mod.obligations('quick') if o.oid == oid]
    if not obs:
        return {'failures': None, 'error': f'no obligation {oid} in {module}'}
    ob = obs[0]
    if ob.kind == 'smt':
        return {'failures': list(ob.replay(witness))}
    ctx = Ctx('replay', values=witness)
    try:
        ob.fn(ctx)
    except ReplayOutOfBounds as e:
        return {'failures': None, 'error': f'witness outside bounds: {e}'}
    except Exception as e:
        tb = traceback.extract_tb(e.__traceback__)
        if not any('/zeroconf/' in f.filename and '/verif/' not in f.filename for f in tb):
            # raised by /verif's own code with no library frame on the stack: a defect of the harness, never a finding
            return {'failures': None, 'error': f'harness exception {type(e).__name__}: {e} at ' + ' <- '.join(f'{os.path.basename(f.filename)}:{f.lineno}' for f in tb[-4:])}
        where = ' <- '.join(f'{os.path.basename(f.filename)}:{f.lineno}' for f in tb[-3:])
        ctx.failures.append(f'exception {type(e).__name__} at {where}: {e}')
    finally:
        env.end()
    return {'failures': [str(f) for f in ctx.failures], 'notes': ctx.notes[:20]}


def main() -> None:
    req = json.loads(sys.stdin.read())
    assert 'crosshair' not in sys.modules
    out = replay(req['module'], req['oid'], req['witness'])
    assert 'crosshair' not in sys.modules, 'replay must not load the symbolic engine'
    print(json.dumps(out, default=str))


if __name__ == '__main__':
    main()
