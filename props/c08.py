"""C08 - withdrawn services stay withdrawn: complete goodbyes, no resurrection.

Engine E1: real registry, listener, query handler, both outgoing queues and the real
async_unregister_service / async_unregister_all_services coroutines on the fake loop.  The arrival
instant of a query and the instant of the unregister call (both 0..2000 ms after t0, either order),
every jitter draw and the age of a previous sighting are solver variables.
"""
from __future__ import annotations

from typing import Any, Dict, List, Tuple

from vkit import env
from vkit.responder import V4A, V4B, V6B, Q, Svc, mk_query
from vkit.runner import Obligation
from zeroconf import const

PROPERTY = 'C08'
T1, T2 = '_http._tcp.local.', '_ipp._tcp.local.'
PTR, A, AAAA, SRV, TXT = const._TYPE_PTR, const._TYPE_A, const._TYPE_AAAA, const._TYPE_SRV, const._TYPE_TXT
N1, N2, N3 = 'Alpha._http._tcp.local.', 'Beta._http._tcp.local.', 'Gamma._ipp._tcp.local.'
UNREG = const._UNREGISTER_TIME


def catalogue() -> Dict[str, Svc]:
    return {
        'S1': Svc('S1', T1, N1, 'alpha.local.', 80, [V4A], []),
        'S2': Svc('S2', T1, N2, 'ALPHA.local.', 8080, [V4A], []),  # shares the host name (other spelling)
        'S3': Svc('S3', T2, N3, 'gamma.local.', 631, [V4B], [V6B]),
    }


def make(shape: Dict[str, Any]) -> Any:
    reg: List[str] = shape['registry']
    action: str = shape['action']  # 'unregister:S1' | 'close'
    queries: List[Dict[str, Any]] = shape.get('queries', [])
    sighted: List[Tuple[str, str]] = shape.get('sighted', [])

    def fn(ctx: Any) -> None:
        t0 = ctx.int('t0', 5000, 2**40)
        loop = env.begin(ctx, t0)
        env.use_token_packets(True)
        zc = env.make_zc(loop)
        cat = catalogue()
        infos = {}
        for k in reg:
            infos[k] = cat[k].info()
            zc.registry.async_add(infos[k])
        proto = zc.engine.protocols[0]
        for key, kind in sighted:
            s = cat[key]
            spec, ttl, uniq = {'PTR': s.ptr, 'SRV': s.srv, 'TXT': s.txt, 'A': lambda: s.addrs(A)[0], 'NSEC': lambda: s.nsec()[0]}[kind]()
            zc.cache.async_add_records([spec.make(ttl, t0 - ctx.int(f'age_{key}_{kind}', 0, 1500), uniq)])
        # ---- schedule: queries and the withdrawal at symbolic offsets, in time order
        todo: List[Tuple[Any, str, Any]] = []
        for i, qd in enumerate(queries):
            todo.append((ctx.int(f'query_offset{i}', 0, shape.get('offset_max', 2000)), 'query', qd))
        u_off = ctx.int('withdraw_offset', 0, shape.get('offset_max', 2000))
        todo.append((u_off, 'withdraw', None))
        done_items: List[int] = []
        asked_at: List[Tuple[Any, Any]] = []
        withdrawn_at = None
        for _ in range(len(todo)):
            best = None
            for j, (off, kind, _p) in enumerate(todo):
                if j in done_items:
                    continue
                if best is None or off < todo[best][0]:
                    best = j
            assert best is not None
            done_items.append(best)
            off, kind, payload = todo[best]
            loop.advance_to(t0 + off)
            if kind == 'query':
                asked_at.append((loop.now_ms, payload))
                src_port = payload.get('port', 5353)
                msg = mk_query(loop.now_ms, [Q(n, t, qu) for n, t, qu in payload['q']], [], ('10.0.0.9', src_port), truncated=payload.get('tc', False), data=f'q{best}'.encode())
                if zc.registry.has_entries:  # as AsyncListener.datagram_received does
                    proto.handle_query_or_defer(msg, '10.0.0.9', src_port, proto.transport, ())
            else:
                withdrawn_at = loop.now_ms
                if action == 'close':
                    loop.create_task(zc.async_unregister_all_services())
                elif action.startswith('unregister-recased:'):
                    # the application withdraws the service through another ServiceInfo object spelled in another case
                    sv = cat[action.split(':')[1]]
                    other = Svc(sv.key, sv.type, sv.name.split('.', 1)[0].upper() + '.' + sv.name.split('.', 1)[1], sv.server, sv.port, sv.v4, sv.v6).info()
                    loop.create_task(zc.async_unregister_service(other))
                else:
                    loop.create_task(zc.async_unregister_service(infos[action.split(':')[1]]))
        loop.advance_by(5000)
        if ctx.twin:
            return
        ctx.check(not loop.callback_exceptions and not loop.task_exceptions, f'exception: {(loop.callback_exceptions + loop.task_exceptions)[:1]}')
        assert withdrawn_at is not None
        gone = reg if action == 'close' else [action.split(':')[1]]
        remaining = [k for k in reg if k not in gone]
        withdrawn: Dict[Tuple, Any] = {}
        kept: Dict[Tuple, Any] = {}
        for k in gone:
            s = cat[k]
            shared = any(cat[r].server.lower() == s.server.lower() for r in remaining)
            recs = [s.ptr(), s.srv(), s.txt()] + ([] if shared else s.addrs_and_nsec())
            for spec, _, _ in recs:
                withdrawn[spec.ident] = spec
        for k in remaining:
            for spec, _, _ in cat[k].all_records():
                kept[spec.ident] = spec

        def ident(r: Any, table: Dict[Tuple, Any]) -> Any:
            for i_, sp in table.items():
                if sp.make(0, 1) == r:
                    return i_
                if sp.kind == 'NSEC' and r.type == sp.type and r.name.lower() == sp.name.lower() and getattr(r, 'rdtypes', None) == sorted(sp.rd['rdtypes']):
                    return i_  # the next-name field repeats the instance name in whatever case the withdrawing object spells it
            return None

        sends = env.sent_log(zc)
        goodbyes = [s for s in sends if not s.out.is_query() and s.records() and all(r.ttl == 0 for r in s.records())]
        ctx.check(len(goodbyes) == 3, f'{len(goodbyes)} goodbye messages, expected three')
        ctx.check([g.t for g in goodbyes] == [withdrawn_at + k * UNREG for k in range(len(goodbyes))], f'goodbyes not {UNREG} ms apart starting at the withdrawal')
        for g in goodbyes:
            ctx.check(g.multicast, 'goodbye not multicast')
            got = sorted(i_ for i_ in (ident(r, withdrawn) for r in g.records()) if i_ is not None)
            ctx.check(sorted(set(got)) == sorted(withdrawn), f'goodbye carries {[x[:3] for x in got]} but must withdraw exactly {[x[:3] for x in sorted(withdrawn)]}')
            for r in g.records():
                ctx.check(ident(r, kept) is None or ident(r, withdrawn) is not None, f'goodbye withdraws {r.name}/{r.type} which a still registered service uses')
        # ---- what is still registered keeps being answered: a reply queued before the withdrawal loses only the withdrawn records
        from vkit.responder import reference_answers

        for q_at, payload in asked_at:
            if payload.get('tc'):
                continue  # (released by its hold timer: which registry state it sees depends on the draw)
            for n, t, qu in payload['q']:
                for spec, _ttl, _u, _adds in reference_answers([cat[k] for k in remaining], Q(n, t, qu), []):
                    if spec.ident in withdrawn:
                        continue
                    hit = any(s.t >= q_at and any(r.ttl != 0 and ident(r, {spec.ident: spec}) is not None for r, _ in s.out.answers) for s in sends)
                    ctx.check(hit, f'{spec.kind} of {spec.name} belongs to a service that is still registered and was asked for, but the reply lost it')
        final = withdrawn_at + 2 * UNREG
        for s in sends:
            if s.t > final:
                for r in s.records():
                    if r.ttl != 0 and ident(r, withdrawn) is not None:
                        ctx.check(False, f'{r.name}/{r.type} of a withdrawn service transmitted with a non-zero TTL after the final goodbye ({"multicast" if s.multicast else "unicast"})')

    return fn


def sh(**kw: Any) -> Dict[str, Any]:
    return kw


PTRQ = {'q': [(T1, PTR, False)]}
MULTI = {'q': [(N1, SRV, False), (N1, TXT, False)]}
SRVQ = {'q': [(N1, SRV, False)]}
QUQ = {'q': [(T1, PTR, True)]}
AQ = {'q': [('alpha.local.', A, False), ('alpha.local.', AAAA, False)]}
LEGACY = {'q': [(T1, PTR, False)], 'port': 40000}
TCQ = {'q': [(T1, PTR, False)], 'tc': True}  # held 400..500 ms for continuation packets

QUICK = {
    'quiet-one': sh(registry=['S1'], action='unregister:S1'),
    'quiet-shared-host': sh(registry=['S1', 'S2'], action='unregister:S1'),
    'quiet-distinct-host': sh(registry=['S1', 'S3'], action='unregister:S1'),
    'quiet-shared-host-upper': sh(registry=['S1', 'S2'], action='unregister:S2'),
    'close-two': sh(registry=['S1', 'S3'], action='close'),
    'close-shared': sh(registry=['S1', 'S2'], action='close'),
    'ptr-query': sh(registry=['S1'], action='unregister:S1', queries=[PTRQ]),
    'multi-query': sh(registry=['S1', 'S3'], action='unregister:S1', queries=[MULTI]),
    'ptr-query-protected': sh(registry=['S1'], action='unregister:S1', queries=[PTRQ], sighted=[('S1', 'PTR')]),
    'ptr-query-protected-shared': sh(registry=['S1', 'S2'], action='unregister:S1', queries=[PTRQ], sighted=[('S1', 'PTR')]),
    'srv-query': sh(registry=['S1'], action='unregister:S1', queries=[SRVQ]),
    'qu-query': sh(registry=['S1'], action='unregister:S1', queries=[QUQ]),
    'ptr-query-shared': sh(registry=['S1', 'S2'], action='unregister:S1', queries=[PTRQ]),
    'ptr-query-close': sh(registry=['S1'], action='close', queries=[PTRQ]),
    'ptr-query-twice': sh(registry=['S1'], action='unregister:S1', queries=[PTRQ, PTRQ], offset_max=400),
    'quiet-recased-object': sh(registry=['S1'], action='unregister-recased:S1'),
    'ptr-query-recased-object': sh(registry=['S1', 'S3'], action='unregister-recased:S1', queries=[PTRQ]),
    'address-query-shared-protected': sh(registry=['S1', 'S2'], action='unregister:S1', queries=[AQ], sighted=[('S1', 'A')]),
    'address-query-protected': sh(registry=['S1'], action='unregister:S1', queries=[AQ], sighted=[('S1', 'A'), ('S1', 'NSEC')]),
    'tc-query-pending': sh(registry=['S1'], action='unregister:S1', queries=[TCQ], offset_max=800),
    'tc-query-pending-shared': sh(registry=['S1', 'S2'], action='unregister:S1', queries=[TCQ], offset_max=800),
}
THOROUGH = {
    'address-query-shared': sh(registry=['S1', 'S2'], action='unregister:S1', queries=[AQ]),
    'address-query': sh(registry=['S1'], action='unregister:S1', queries=[AQ]),
    'legacy-query': sh(registry=['S1'], action='unregister:S1', queries=[LEGACY]),
    'two-queries': sh(registry=['S1'], action='unregister:S1', queries=[PTRQ, MULTI]),
    'srv-protected': sh(registry=['S1'], action='unregister:S1', queries=[MULTI], sighted=[('S1', 'SRV'), ('S1', 'TXT')]),
    'multi-query-close': sh(registry=['S1', 'S3'], action='close', queries=[MULTI]),
    'unregister-other': sh(registry=['S1', 'S2'], action='unregister:S2', queries=[PTRQ]),
}


def obligations(tier: str) -> List[Obligation]:
    shapes = dict(QUICK)
    if tier == 'thorough':
        shapes.update(THOROUGH)
    return [Obligation(f'withdraw[{k}]', make(v), 'withdraw', {'name': k, **v}, timeout=150 if tier == 'quick' else 600) for k, v in shapes.items()]


META = {
    'explanation': 'Socket-less instance with 1..2 registered services; a query (QM PTR / multi-question / single SRV / QU / address / legacy '
    'unicast, optionally with a record sighted < 1.5 s earlier) and the call of async_unregister_service or async_unregister_all_services happen at '
    'independent symbolic offsets 0..2000 ms (either order); jitter draws symbolic. The trace is checked for three complete goodbyes 125 ms apart '
    '(address / NSEC records only when no remaining service shares the host) and for the absence of any withdrawn record with TTL > 0 after the third.',
    'functions': [
        'zeroconf._core.Zeroconf.async_unregister_service/async_unregister_all_services/generate_unregister_all_services/_async_broadcast_service/'
        'generate_service_broadcast/_add_broadcast_answer/async_send', 'ServiceRegistry.async_remove/async_get_infos_server',
        'AsyncListener.handle_query_or_defer', 'QueryHandler.handle_assembled_query/async_response', 'MulticastOutgoingQueue.async_add/async_ready',
    ],
    'bounds': {'t0': [5000, 2**40], 'query / withdrawal offsets ms': [0, 2000], 'jitter': 'full intervals', 'sighting age ms': [0, 1500], 'queries': '<= 2', 'services': '<= 2'},
    'outside': ['close() of the whole instance (C17)', 'more than two services / two queries', 'truncated trains of more than one packet pending at withdrawal'],
    'stubs': env.STUBS,
    'float_sites': [],
    'assumptions': ['CrossHair 0.0.110 / z3 5.1.0', 'timers fire exactly on time'],
}
