"""Value-preserving stand-ins for the struct packers of DNSOutgoing.

`_get_short`, `_write_int` and `_write_byte` normally go through struct.pack / lookup tables, which
force a symbolic integer to a concrete value (one path per value).  The stand-ins append a bytes
object of the right width that *carries* the (possibly symbolic) value, so the real packets(),
_write_record, _write_question, _write_record_class, _write_ttl, write_name ... run unchanged and
the harness can read back what was written.  Widths, and therefore `size` accounting, are preserved.
"""
from __future__ import annotations

from typing import Any, List

_saved: dict = {}


class Tok(bytes):
    value: Any = None
    width: int = 0
    symbolic: bool = False  # set by harnesses for octets that are solver terms

    def __new__(cls, value: Any, width: int) -> 'Tok':
        o = bytes.__new__(cls, b'\x00' * width)
        o.value = value
        o.width = width
        return o

    def __repr__(self) -> str:
        return f'Tok{self.width * 8}({self.value!r})'


def sym_octet(value: Any) -> Tok:
    t = Tok(value, 1)
    t.symbolic = True
    return t


def install() -> None:
    from zeroconf._protocol.outgoing import DNSOutgoing

    if _saved:
        return
    _saved['_get_short'] = DNSOutgoing._get_short
    _saved['_write_int'] = DNSOutgoing._write_int
    _saved['_write_byte'] = DNSOutgoing._write_byte

    def _get_short(self: Any, value: Any) -> bytes:
        return Tok(value, 2)

    def _write_int(self: Any, value: Any) -> None:
        self.data.append(Tok(int(value), 4))
        self.size += 4

    def _write_byte(self: Any, value: Any) -> None:
        self.data.append(Tok(value, 1))
        self.size += 1

    DNSOutgoing._get_short = _get_short  # type: ignore[method-assign]
    DNSOutgoing._write_int = _write_int  # type: ignore[method-assign]
    DNSOutgoing._write_byte = _write_byte  # type: ignore[method-assign]


def uninstall() -> None:
    from zeroconf._protocol.outgoing import DNSOutgoing

    for k, v in _saved.items():
        setattr(DNSOutgoing, k, v)
    _saved.clear()


def values(data: List[bytes]) -> List[Any]:
    """Flatten a DNSOutgoing.data list into octet-or-token values (tokens as (width, value))."""
    out: List[Any] = []
    for d in data:
        if isinstance(d, Tok):
            out.append((d.width, d.value))
        else:
            out.extend(d)
    return out
