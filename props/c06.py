"""C06 - response ingestion and the record-update listener contract.

Engine E1: the real RecordManager.async_updates_from_response + DNSCache are executed symbolically
for concretely enumerated datagram shapes; every TTL, the start instant and every gap between
datagrams are solver variables.  Oracle: vkit.model.RefCache (written from the property text).
"""
from __future__ import annotations

from typing import Any, Dict, List

from vkit import env
from vkit.build import VOCAB, mk_incoming
from vkit.model import RefCache
from vkit.runner import Obligation
from zeroconf._updates import RecordUpdateListener

from .common import GAP_MAX, T0_MAX, TTL_MAX, parse_datagram, probe_all, relevant_specs, same_state

PROPERTY = 'C06'


class Recorder(RecordUpdateListener):
    def __init__(self, zc: Any, name: str, behaviour: str = 'plain', specs: Any = None) -> None:
        self.zc, self.name, self.behaviour, self.specs = zc, name, behaviour, specs
        self.calls: List[Any] = []
        self.spawned: List['Recorder'] = []

    def async_update_records(self, zc: Any, now: Any, records: List[Any]) -> None:
        snap = probe_all(zc.cache, self.specs)
        self.calls.append(('first', now, [(r.new, r.old) for r in records], snap))
        if self.behaviour == 'spawn':
            extra = Recorder(zc, self.name + '.child', 'plain', self.specs)
            self.spawned.append(extra)
            zc.record_manager.async_add_listener(extra, None)

    def async_update_records_complete(self) -> None:
        self.calls.append(('second', None, None, probe_all(self.zc.cache, self.specs)))
        if self.behaviour == 'leave':
            self.zc.record_manager.async_remove_listener(self)


def ident_of(rec: Any) -> Any:
    for spec in VOCAB.values():
        if spec.make(0, 1) == rec:
            return spec.ident
    return ('?', rec.key, rec.type, rec.class_)


def make(shape: Dict[str, Any]) -> Any:
    datagrams = [parse_datagram(d) for d in shape['datagrams']]
    behaviours = shape.get('listeners', ['plain', 'plain'])
    specs = relevant_specs(datagrams)

    def fn(ctx: Any) -> None:
        t0 = ctx.int('t0', 1, T0_MAX)
        loop = env.begin(ctx, t0)
        zc = env.make_zc(loop)
        model = RefCache()
        recorders: List[Recorder] = []
        for i, dg in enumerate(datagrams):
            last = i == len(datagrams) - 1
            if i > 0:
                loop.advance_by(ctx.int(f'gap{i}', 0, GAP_MAX))
            now = loop.now_ms
            recs, items = [], []
            for j, (key, flush) in enumerate(dg):
                ttl = ctx.int(f'ttl{i}_{j}', 0 if last else 1, TTL_MAX)
                spec = VOCAB[key]
                recs.append(spec.make(ttl, now, flush))
                items.append((spec, ttl, flush))
            if last:
                for k, b in enumerate(behaviours):
                    r = Recorder(zc, f'L{k}', b, specs)
                    recorders.append(r)
                    zc.record_manager.async_add_listener(r, None)
            ex = model.ingest(now, items)
            zc.record_manager.async_updates_from_response(mk_incoming(now, recs))
            same_state(ctx, probe_all(zc.cache, specs), ex.second, f'after datagram {i}')
            if not last:
                continue
            if ctx.twin:
                return
            for r in recorders:
                firsts = [c for c in r.calls if c[0] == 'first']
                seconds = [c for c in r.calls if c[0] == 'second']
                if not ex.pairs:
                    ctx.check(len(firsts) <= 1 and len(seconds) <= 1, f'{r.name}: called more than once for a datagram without updates')
                    continue
                if not ctx.check(len(firsts) == 1, f'{r.name}: first callback delivered {len(firsts)} times'):
                    continue
                ctx.check(len(seconds) == 1, f'{r.name}: completion callback delivered {len(seconds)} times')
                ctx.check(r.calls[0][0] == 'first', f'{r.name}: completion delivered before the update callback')
                _, cb_now, pairs, snap1 = firsts[0]
                ctx.check(cb_now == now, f'{r.name}: callback time differs from the arrival time')
                got = [(ident_of(n), o is not None) for n, o in pairs]
                ctx.check(got == ex.pairs, f'{r.name}: (new, previous) pairs {got} differ from datagram order / cache state {ex.pairs}')
                for n, o in pairs:
                    if o is not None:
                        ctx.check(ident_of(o) == ident_of(n), f'{r.name}: previous is not the cached copy of new')
                same_state(ctx, snap1, ex.first, f'{r.name} during the first callback')
                if seconds:
                    same_state(ctx, seconds[0][3], ex.second, f'{r.name} during the completion callback')
            for r in recorders:
                for child in r.spawned:
                    ctx.check(not [c for c in child.calls if c[0] == 'first'], 'listener added inside a callback received the pairs of the datagram being processed')

    return fn


HISTS = [
    [],
    ['P1'],
    ['P1+'],
    ['A1+'],
    ['A1+ A2+'],
    ['P1 S1+ T1+ A1+'],
    ['A1+', 'A2+'],
    ['T1+', 'T1b'],
    ['P1', 'P2'],
]
FINALS = [
    'P1', 'P1u', 'P2', 'A1+', 'A2+', 'A1', 'T1b+', 'S1b+', 'P1 P2', 'A1+ A2+', 'P1 S1+ T1+ A1+',
    'A2+ A1+', 'H1+', 'N1+', 'AAAA1+', 'Q1 P1', 'A1u+', 'P1+',
]
QUICK = [
    ([], 'P1'), ([], 'P1 S1+ T1+ A1+'), (['P1'], 'P1u'), (['P1'], 'P2'), (['A1+'], 'A2+'), (['A1+'], 'A1+'),
    (['A1+ A2+'], 'A1+'), (['A1+', 'A2+'], 'A1+'), (['A1+', 'A2+'], 'A2+ A1+'), (['T1+', 'T1b'], 'T1b+'),
    (['P1 S1+ T1+ A1+'], 'S1b+'), (['P1', 'P2'], 'P1 P2'),
    (['A1+'], 'A1u+'), (['A1+'], 'A1'), ([], 'H1+'), (['P1'], 'Q1 P1'),
    (['P1'], 'P1+'), (['P1+'], 'P1'), (['T1'], 'T1+'),  # the same record again with the other value of the cache-flush bit
]


def obligations(tier: str) -> List[Obligation]:
    combos = QUICK if tier == 'quick' else [(h, f) for h in HISTS for f in FINALS]
    obs = []
    for h, f in combos:
        shape = {'datagrams': list(h) + [f]}
        oid = 'ingest[' + ' | '.join(shape['datagrams']) + ']'
        obs.append(Obligation(oid, make(shape), 'ingest', shape, timeout=90 if tier == 'quick' else 700))
    variants = [(['A1+'], 'A2+ P1'), (['P1 S1+ T1+ A1+'], 'P1 T1b+')]
    for h, f in variants:
        for ls in (['spawn', 'plain'], ['leave', 'plain'], ['leave', 'spawn', 'plain']):
            shape = {'datagrams': list(h) + [f], 'listeners': ls}
            oid = 'listeners[' + ' | '.join(shape['datagrams']) + ' ; ' + ','.join(ls) + ']'
            obs.append(Obligation(oid, make(shape), 'listeners', shape, timeout=90 if tier == 'quick' else 700))
    return obs


META = {
    'explanation': 'Each obligation runs the real RecordManager.async_updates_from_response / DNSCache on one concrete datagram '
    'history (record kinds, names, flush bits fixed) with every TTL (0..2^32-1), the start instant and every inter-datagram gap '
    'as z3 variables; CrossHair exhausts the path tree (CONFIRMED) or returns concrete values which are replayed natively. '
    'The oracle is a list-based RFC 6762 section 10 model plus the listener contract clause by clause.',
    'functions': [
        'zeroconf._handlers.record_manager.RecordManager.async_updates_from_response',
        'RecordManager.async_updates', 'RecordManager.async_updates_complete', 'RecordManager.async_add_listener',
        'RecordManager.async_remove_listener',
        'zeroconf._cache.DNSCache._async_add/_async_remove/async_add_records/async_remove_records/async_get_unique/'
        'async_all_by_details/async_mark_unique_records_older_than_1s_to_expire/get',
        'zeroconf._dns.DNSRecord.is_expired/reset_ttl/set_created_ttl and __eq__/__hash__ of each record class',
    ],
    'bounds': {
        'ttl': [0, TTL_MAX], 'history ttl': [1, TTL_MAX], 't0_ms': [1, T0_MAX], 'gap_ms': [0, GAP_MAX],
        'history length': '<= 2 datagrams before the datagram under test', 'records per datagram': '<= 4',
        'vocabulary': sorted(VOCAB),
    },
    'outside': [
        'record names / rdata other than the fixed vocabulary; more than 3 datagrams; more than 4 records per datagram',
        'a goodbye and a non-goodbye copy of the same record inside one datagram',
        'listeners removed by another listener in the middle of a datagram (the statement does not say what they may expect)',
        'wire decoding (DNSIncoming objects are built directly; codec: C01/C02)',
    ],
    'stubs': env.STUBS,
    'float_sites': ['const._DNS_PTR_MIN_TTL = 1125.0 compared with an integer TTL (exact in binary64 and in the real model)'],
    'assumptions': [
        'CrossHair 0.0.110 models of int/bool/list/dict/set and its exhaustion bookkeeping; z3 5.1.0',
        'records reach the manager with created == arrival time, as DNSIncoming builds them',
    ],
}
