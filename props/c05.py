"""C05 - record cache: all lookup paths agree with an RFC 6762 section 10 model.

Engine E1.  Histories of datagrams (through the real RecordManager) and purge ticks (the real
AsyncEngine._async_cache_cleanup) with symbolic TTLs and symbolic gaps; after every step every public
lookup path of DNSCache is compared with vkit.model.RefCache on (identity, created, ttl).
"""
from __future__ import annotations

from typing import Any, Dict, List, Tuple

from vkit import env
from vkit.build import IN, VOCAB, mk_incoming
from vkit.model import RefCache
from vkit.runner import Obligation
from zeroconf._updates import RecordUpdateListener

from .c06 import ident_of
from .common import T0_MAX, TTL_MAX, parse_datagram, relevant_specs

PROPERTY = 'C05'
GAP_MAX = 2**43  # long enough for any 32-bit TTL to run out


class PurgeRecorder(RecordUpdateListener):
    def __init__(self) -> None:
        self.batches: List[List[Tuple[Any, Any]]] = []

    def async_update_records(self, zc: Any, now: Any, records: List[Any]) -> None:
        self.batches.append([(r.new, r.old) for r in records])

    def async_update_records_complete(self) -> None:
        pass


def compare_all_paths(ctx: Any, cache: Any, model: RefCache, specs: List[Any], when: str) -> None:
    snap = model.snapshot()

    def same(rec: Any, via: str) -> None:
        ident = ident_of(rec)
        if not ctx.check(ident in snap, f'{when}: {via} returned {ident[:3]} which the model does not hold'):
            return
        mc, mt = snap[ident]
        ctx.check(rec.created == mc, f'{when}: {via} reports a creation time for {ident[:3]} that differs from the model')
        ctx.check(rec.ttl == mt, f'{when}: {via} reports a TTL for {ident[:3]} that differs from the model')

    def same_set(recs: List[Any], expected: List[Tuple], via: str) -> None:
        got = sorted(ident_of(r) for r in recs)
        ctx.check(got == sorted(expected), f'{when}: {via} returned {[g[:3] for g in got]} but the model holds {[e[:3] for e in sorted(expected)]}')
        for r in recs:
            same(r, via)

    order = [e.ident for e in model.entries]
    for spec in specs:
        probe = spec.make(0, 1)
        for via, got in (('get', cache.get(probe)), ('async_get_unique', cache.async_get_unique(probe))):
            if spec.ident in snap:
                if ctx.check(got is not None, f'{when}: {via} misses {spec.ident[:3]}'):
                    same(got, via)
            else:
                ctx.check(got is None, f'{when}: {via} returns {spec.ident[:3]} which should be gone')
    groups = sorted({(s.name, s.type) for s in specs})
    for name, type_ in groups:
        exp = [i for i in order if i[1] == name.lower() and i[2] == type_ and i[3] == IN]
        same_set(cache.get_all_by_details(name, type_, IN), exp, f'get_all_by_details({name},{type_})')
        same_set(cache.async_all_by_details(name, type_, IN), exp, f'async_all_by_details({name},{type_})')
        one = cache.get_by_details(name, type_, IN)
        if exp:
            if ctx.check(one is not None, f'{when}: get_by_details({name},{type_}) finds nothing'):
                same(one, 'get_by_details')
                ctx.check(ident_of(one) in exp, f'{when}: get_by_details({name},{type_}) returned a record of another set')
        else:
            ctx.check(one is None, f'{when}: get_by_details({name},{type_}) returned a record that should be gone')
    for name in sorted({s.name for s in specs}):
        exp = [i for i in order if i[1] == name.lower()]
        same_set(cache.entries_with_name(name), exp, f'entries_with_name({name})')
        same_set(list(cache.async_entries_with_name(name)), exp, f'async_entries_with_name({name})')
    for server in sorted({s.rd['server'] for s in specs if s.kind == 'SRV'} | {'alpha.local.', 'ALPHA.local.'}):
        exp = [i for i in order if i[0] == 'SRV' and i[-1] == server.lower()]
        same_set(cache.entries_with_server(server), exp, f'entries_with_server({server})')
        same_set(list(cache.async_entries_with_server(server)), exp, f'async_entries_with_server({server})')
    ctx.check(sorted(cache.names()) == sorted({i[1] for i in order}), f'{when}: names() differs from the owner names the model holds')


def make(shape: Dict[str, Any]) -> Any:
    events = shape['events']
    datagrams = [parse_datagram(e) for e in events if e != 'PURGE']
    specs = relevant_specs(datagrams)
    constrain = shape.get('ttl_min', 0)

    def fn(ctx: Any) -> None:
        t0 = ctx.int('t0', 1, T0_MAX)
        loop = env.begin(ctx, t0)
        zc = env.make_zc(loop)
        model = RefCache()
        rec = PurgeRecorder()
        rec2 = PurgeRecorder()  # a second listener: every listener is told about every purged record
        for i, ev in enumerate(events):
            if i > 0:
                loop.now_ms = loop.now_ms + ctx.int(f'gap{i}', 0, GAP_MAX)
            now = loop.now_ms
            if ev == 'PURGE':
                zc.record_manager.async_add_listener(rec, None)
                zc.record_manager.async_add_listener(rec2, None)
                expected_gone = sorted(model.purge(now))
                zc.engine._async_cache_cleanup()
                zc.record_manager.async_remove_listener(rec)
                zc.record_manager.async_remove_listener(rec2)
                reported = [p for b in rec.batches for p in b]
                reported2 = [p for b in rec2.batches for p in b]
                rec.batches, rec2.batches = [], []
                ctx.check(sorted(ident_of(n) for n, _ in reported2) == sorted(ident_of(n) for n, _ in reported), f'purge at event {i}: two listeners were told about different records')
                got = sorted(ident_of(n) for n, _ in reported)
                ctx.check(got == expected_gone, f'purge at event {i}: reported {[g[:3] for g in got]} but exactly {[g[:3] for g in expected_gone]} have fully elapsed (each once)')
                for n, o in reported:
                    ctx.check(n is o, 'purge reports a record with a different previous copy')
            else:
                recs, items = [], []
                for j, (key, flush) in enumerate(parse_datagram(ev)):
                    ttl = ctx.int(f'ttl{i}_{j}', constrain, TTL_MAX)
                    recs.append(VOCAB[key].make(ttl, now, flush))
                    items.append((VOCAB[key], ttl, flush))
                model.ingest(now, items)
                zc.record_manager.async_updates_from_response(mk_incoming(now, recs))
            if ctx.twin and i == len(events) - 1:
                return
            compare_all_paths(ctx, zc.cache, model, specs, f'after event {i} ({ev})')

    return fn


QUICK = [
    ['A1+', 'PURGE'],
    ['P1', 'P1', 'PURGE'],
    ['S1+', 'S1b+', 'PURGE'],
    ['A1+ A2+', 'A1+', 'PURGE'],
    ['A1 A1', 'A1', 'PURGE'],
    ['P1 P1', 'P1', 'PURGE'],
    ['S1 S1', 'S1', 'PURGE'],
    ['P1', 'P1+', 'PURGE'],
    ['N1+', 'N1+', 'PURGE'],
    ['A1+', 'A1u+', 'PURGE'],
    ['S1+ T1+', 'S1+', 'PURGE'],
    ['P1 P2', 'PURGE', 'P1'],
    ['A1+', 'PURGE', 'PURGE'],
]
THOROUGH_EXTRA = [
    ['A1+', 'A2+', 'PURGE'],
    ['A1+', 'A2+', 'A1+', 'PURGE'],
    ['T1+', 'T1b+', 'PURGE', 'T1+'],
    ['S1+ S1+', 'S1+', 'PURGE'],
    ['T1 T1', 'PURGE', 'T1', 'PURGE'],
    ['P1 P1u', 'P1', 'PURGE'],
    ['P1 S1+ T1+ A1+', 'PURGE'],
    ['P1 S1+ T1+ A1+', 'P1', 'PURGE'],
    ['S1+', 'S2+', 'S1b+', 'PURGE'],
    ['H1+', 'H1+', 'PURGE'],
    ['N1+', 'PURGE'],
    ['A1+ AAAA1+', 'A1+', 'PURGE'],
    ['P1', 'PURGE', 'P1', 'PURGE'],
    ['A1 A1 A1', 'PURGE'],
    ['P1 P2', 'P2', 'P1', 'PURGE'],
    ['A1+', 'A1', 'A1+', 'PURGE'],
]


def obligations(tier: str) -> List[Obligation]:
    shapes = QUICK if tier == 'quick' else QUICK + THOROUGH_EXTRA
    obs = []
    for ev in shapes:
        shape = {'events': ev}
        obs.append(Obligation('history[' + ' | '.join(ev) + ']', make(shape), 'history', shape, timeout=100 if tier == 'quick' else 900))
    return obs


META = {
    'explanation': 'Real RecordManager + DNSCache + AsyncEngine._async_cache_cleanup driven through concrete event shapes '
    '(datagrams of named records, PURGE ticks) with all TTLs, the start instant and all gaps symbolic; after every event get, '
    'async_get_unique, get_by_details, get_all_by_details, async_all_by_details, entries_with_name, async_entries_with_name, '
    'entries_with_server, async_entries_with_server and names are compared with a list-based section-10 model; purge reports are '
    'compared with the set of fully elapsed records.',
    'functions': [
        'zeroconf._cache.DNSCache (every public method)', 'zeroconf._cache._remove_key',
        'zeroconf._handlers.record_manager.RecordManager.async_updates_from_response/async_updates/async_updates_complete',
        'zeroconf._engine.AsyncEngine._async_cache_cleanup', 'zeroconf._history.QuestionHistory.async_expire',
        'zeroconf._dns.DNSRecord.is_expired/reset_ttl/set_created_ttl',
    ],
    'bounds': {'ttl': [0, TTL_MAX], 't0_ms': [1, T0_MAX], 'gap_ms': [0, GAP_MAX], 'events': '<= 4', 'records per datagram': '<= 4'},
    'outside': [
        'histories longer than 4 events, names outside the vocabulary, random histories "beyond the bounded depth"',
        'insertion-order details of get_by_details beyond membership of the right record set',
    ],
    'stubs': env.STUBS,
    'float_sites': ['const._DNS_PTR_MIN_TTL = 1125.0 (exact)'],
    'assumptions': ['CrossHair 0.0.110 / z3 5.1.0 exhaustion bookkeeping', 'records are created with created == arrival time'],
}


# ------------------------------------------------------------------ E2: record-age arithmetic from the AST of _dns.py


def _age_lemmas() -> List[Obligation]:
    import z3

    from vkit import pyz3
    from zeroconf._dns import DNSRecord

    def outcomes(method: str, **args: Any) -> Any:
        created, ttl = z3.Int('created'), z3.Int('ttl')
        ev = pyz3.Evaluator(getattr(DNSRecord, method), {'created': created, 'ttl': ttl})
        return ev.run(args), [created >= 1, created <= 2**44, ttl >= 0, ttl <= 2**32 - 1]

    def value(paths: Any) -> Any:
        """Fold (condition, ('return', v)) pairs into one term."""
        term = None
        for cond, (kind, v) in reversed(paths):
            assert kind == 'return'
            v = v if isinstance(v, z3.ExprRef) else (z3.BoolVal(v) if isinstance(v, bool) else (z3.RealVal(v) if isinstance(v, float) else z3.IntVal(v)))
            if term is not None and term.sort() != v.sort():
                term, v = (z3.ToReal(term) if term.sort() == z3.IntSort() else term), (z3.ToReal(v) if v.sort() == z3.IntSort() else v)
            term = v if term is None else z3.If(cond, v, term)
        return term

    def lemma(name: str, build: Any) -> Any:
        def run() -> Dict[str, Any]:
            try:
                goal, base = build()
            except pyz3.Unsupported as e:
                return {'verdict': 'inconclusive', 'queries': 0, 'solver_s': 0, 'detail': f'outside the translated subset: {e}'}
            r, model, dt = pyz3.solve(base + [z3.Not(goal)], 60000)
            if r == 'unsat':
                return {'verdict': 'discharged', 'queries': 1, 'solver_s': round(dt, 3)}
            if r == 'sat':
                return {'verdict': 'counterexample', 'witness': {str(d): model[d].as_long() for d in model.decls()}, 'queries': 1, 'solver_s': round(dt, 3)}
            return {'verdict': 'inconclusive', 'queries': 1, 'solver_s': round(dt, 3)}

        return run

    now = z3.Int('now')
    nb = [now >= 0, now <= 2**45]

    def b_expired_stale() -> Any:
        e, base = outcomes('is_expired', now=now)
        s, _ = outcomes('is_stale', now=now)
        return z3.Implies(value(e), value(s)), base + nb

    def b_stale_not_recent() -> Any:
        s, base = outcomes('is_stale', now=now)
        r, _ = outcomes('is_recent', now=now)
        return z3.Implies(value(s), z3.Not(value(r))), base + nb

    def b_expiry_agrees() -> Any:
        e, base = outcomes('is_expired', now=now)
        x, _ = outcomes('get_expiration_time', percent=100)
        return value(e) == (value(x) <= now), base + nb

    def b_remaining() -> Any:
        e, base = outcomes('is_expired', now=now)
        rem, _ = outcomes('get_remaining_ttl', now=now)
        created, ttl = z3.Int('created'), z3.Int('ttl')
        left = z3.ToReal(created + 1000 * ttl - now)
        v = value(rem)
        v = z3.ToReal(v) if v.sort() == z3.IntSort() else v
        return z3.And(z3.Implies(value(e), v == 0), z3.Implies(z3.Not(value(e)), v * 1000 == left)), base + nb

    def b_absolute() -> Any:
        # the thresholds as the properties state them: full TTL, half TTL (C03 / C13), quarter TTL (C11), percent of TTL (C10)
        created, ttl = z3.Int('created'), z3.Int('ttl')
        pct = z3.Int('percent')
        e, base = outcomes('is_expired', now=now)
        st, _ = outcomes('is_stale', now=now)
        rc, _ = outcomes('is_recent', now=now)
        x, _ = outcomes('get_expiration_time', percent=pct)
        xv = value(x)
        xv = z3.ToReal(xv) if xv.sort() == z3.IntSort() else xv
        goal = z3.And(value(e) == (created + 1000 * ttl <= now), value(st) == (created + 500 * ttl <= now), value(rc) == (created + 250 * ttl > now),
                      xv == z3.ToReal(created + 10 * pct * ttl))
        return goal, base + nb + [pct >= 0, pct <= 100]

    def replay(w: Dict[str, Any]) -> List[str]:
        from zeroconf._dns import DNSPointer

        r = DNSPointer('a.local.', 12, 1, w.get('ttl', 0), 'b.a.local.', w.get('created', 1))
        n = w.get('now', 0)
        out = []
        if r.is_expired(n) and not r.is_stale(n):
            out.append('expired but not stale')
        if r.is_stale(n) and r.is_recent(n):
            out.append('stale and recent')
        if r.is_expired(n) != (r.get_expiration_time(100) <= n):
            out.append('is_expired disagrees with get_expiration_time(100)')
        if r.is_expired(n) and r.get_remaining_ttl(n) != 0:
            out.append('expired record has remaining TTL')
        if not r.is_expired(n) and r.get_remaining_ttl(n) * 1000 != r.created + 1000 * r.ttl - n:
            out.append('remaining TTL is not (created + 1000 ttl - now) / 1000')
        if r.is_expired(n) != (r.created + 1000 * r.ttl <= n) or r.is_stale(n) != (r.created + 500 * r.ttl <= n) or r.is_recent(n) != (r.created + 250 * r.ttl > n):
            out.append('is_expired / is_stale / is_recent are not the full / half / quarter TTL thresholds')
        if r.get_expiration_time(w.get('percent', 0)) != r.created + 10 * w.get('percent', 0) * r.ttl:
            out.append('get_expiration_time(p) is not created + p percent of the TTL')
        return out

    items = [('expired implies stale', b_expired_stale), ('stale excludes recent', b_stale_not_recent),
             ('is_expired agrees with get_expiration_time(100)', b_expiry_agrees), ('remaining TTL', b_remaining), ('full / half / quarter / percent thresholds', b_absolute)]
    return [Obligation(f'age-arithmetic[{n}]', lemma(n, b), 'age-arithmetic', {}, kind='smt', timeout=70, replay=replay) for n, b in items]


_obligations_e1 = obligations


def obligations(tier: str) -> List[Obligation]:  # type: ignore[no-redef]
    return _obligations_e1(tier) + _age_lemmas()
