#!/bin/sh
# tools/mut.sh <file-in-repo> <sed-expr> <PID> [tier] : apply a one-line mutation, run a check, undo it (development aid)
f=/repo/$1; cp "$f" /tmp/mut.bak; sed -i "$2" "$f"
if cmp -s "$f" /tmp/mut.bak; then echo "MUTATION DID NOT APPLY"; exit 2; fi
cd /verif && ./check $3 --tier ${4:-quick} 2>&1 | grep -E "VIOLATION|KNOWN|HARNESS|^C[0-9]+ \[" | head -${5:-6}
cp /tmp/mut.bak "$f"
