"""C14 - outgoing messages respect size limits and account for every section entry.

Engine E1 on the real DNSOutgoing (packets, _write_question, _write_record, _check_data_limit_or_rollback,
write_name, ...) with value-carrying packer stand-ins and opaque rdata of *symbolic length*, so that the
position of every entry relative to the 1460 / 8966 octet limits is decided by the solver.  Every datagram
built is captured as an element list and re-read by an independent reader (vkit.pkt.Reader).
"""
from __future__ import annotations

from typing import Any, Dict, List, Tuple

from vkit import env, wire
from vkit.build import IN, UNIQUE
from vkit.pkt import Blob, Reader, name_labels, run_packets
from vkit.runner import Obligation
from zeroconf import const
from zeroconf._dns import DNSAddress, DNSHinfo, DNSPointer, DNSQuestion, DNSService, DNSText
from zeroconf._protocol.outgoing import DNSOutgoing

PROPERTY = 'C14'
MAXLEN = 8900  # so that a single entry always fits an (otherwise empty) 8966-octet datagram
TC = const._FLAGS_TC


def build(ctx: Any, spec: List[str], prefix: str) -> List[Any]:
    """'TXT:a.x.local.' -> DNSText with rdata of symbolic length; 'A:host.local.' etc."""
    out = []
    for i, item in enumerate(spec):
        kind, name = item.split(':')
        if kind.startswith('TXT'):
            # 'TXT<=300:name' bounds the symbolic rdata length (messages of hundreds of entries: the boundary still sweeps over several entries)
            hi = int(kind.split('<=')[1]) if '<=' in kind else MAXLEN
            out.append(DNSText(name, const._TYPE_TXT, IN | UNIQUE, 4500, Blob(ctx.int(f'{prefix}{i}_len', 0, hi)), 1000))
        elif kind == 'A':
            out.append(DNSAddress(name, const._TYPE_A, IN | UNIQUE, 120, b'\x0a\x00\x00\x01', None, 1000))
        elif kind == 'ADDR':
            # an address record whose rdata length is whatever arrived (a datagram cut short leaves fewer than 4 / 16 octets in the cache,
            # and cached address records are listed as known answers by lookups)
            out.append(DNSAddress(name, const._TYPE_AAAA, IN | UNIQUE, 120, Blob(ctx.int(f'{prefix}{i}_len', 0, 20)), None, 1000))
        elif kind == 'PTR':
            out.append(DNSPointer(name.split('>')[0], const._TYPE_PTR, IN, 4500, name.split('>')[1], 1000))
        elif kind == 'SRV':
            out.append(DNSService(name.split('>')[0], const._TYPE_SRV, IN | UNIQUE, 120, 0, 0, 80, name.split('>')[1], 1000))
        elif kind == 'HINFO':
            out.append(DNSHinfo(name, const._TYPE_HINFO, IN | UNIQUE, 120, 'cpu', 'os', 1000))
        elif kind == 'Q':
            out.append(DNSQuestion(name, const._TYPE_PTR, IN))
        else:
            raise AssertionError(kind)
    return out


def make(shape: Dict[str, Any]) -> Any:
    def fn(ctx: Any) -> None:
        env.begin(ctx, 1000)
        env.use_token_packets(False)
        wire.install()
        try:
            query = shape.get('query', False)
            multicast = shape.get('multicast', True)
            flags = const._FLAGS_QR_QUERY if query else (const._FLAGS_QR_RESPONSE | const._FLAGS_AA)
            msg_id = ctx.int('id', 0, 65535)
            out = DNSOutgoing(flags, multicast, msg_id)
            questions = build(ctx, shape.get('questions', []), 'q')
            answers = build(ctx, shape.get('answers', []), 'an')
            auths = build(ctx, shape.get('authorities', []), 'ns')
            adds = build(ctx, shape.get('additionals', []), 'ar')
            for q in questions:
                out.add_question(q)
            for a in answers:
                out.add_answer_at_time(a, 0)
            for a in auths:
                out.add_authorative_answer(a)
            for a in adds:
                out.add_additional_answer(a)
            snaps = run_packets(out)
            if ctx.twin:
                return
            ctx.check(len(snaps) <= len(questions) + len(answers) + len(auths) + len(adds) + 1, 'more datagrams than entries')
            totals = [0, 0, 0, 0]
            for k, snap in enumerate(snaps):
                rd = Reader(snap, ctx)
                last = k == len(snaps) - 1
                ctx.check(rd.length == snap.size, f'datagram {k}: octets written differ from the size accounted')
                ctx.check(rd.length <= 8966, f'datagram {k}: longer than 8966 octets')
                hid, hflags, nq, nan, nns, nar = rd.header()
                n_entries = nq + nan + nns + nar
                if rd.length > 1460:
                    ctx.check(n_entries == 1, f'datagram {k}: over 1460 octets with {n_entries} entries')
                ctx.check(hid == (0 if multicast else msg_id), f'datagram {k}: header id')
                if query:
                    ctx.check(hflags == (flags | TC if not last else flags), f'datagram {k}: TC flag must be set on every query datagram but the last')
                else:
                    ctx.check(hflags == flags, f'datagram {k}: a response datagram must not set TC / alter flags')
                if not last:
                    ctx.check(n_entries >= 1, f'datagram {k}: empty datagram in the middle of a sequence')
                ents = rd.entries(nq, nan + nns + nar)
                ctx.check(len(ents) == n_entries and not any(e.get('malformed') for e in ents), f'datagram {k}: header counts do not match the entries present / entry unreadable')
                if len(ents) == n_entries and not any(e.get('malformed') for e in ents):
                    ctx.check(rd.end_index == len(snap.data), f'datagram {k}: octets after the last counted entry')
                    expected = (questions[totals[0]:totals[0] + nq] + answers[totals[1]:totals[1] + nan] + auths[totals[2]:totals[2] + nns] + adds[totals[3]:totals[3] + nar])
                    ctx.check(len(expected) == n_entries, f'datagram {k}: claims more entries of a section than remain')
                    for e, want in zip(ents, expected):
                        ctx.check(e['name'] == name_labels(want.name), f'datagram {k}: owner name of {want.name} reads back as {e["name"]} (compression pointer / rollback)')
                        ctx.check(e['type'] == want.type, f'datagram {k}: type of {want.name} wrong')
                        if isinstance(want, DNSText):
                            ctx.check(e['rdlength'] == want.text.n, f'datagram {k}: RDLENGTH of {want.name} is not its rdata length')
                        if isinstance(want, DNSAddress) and isinstance(want.address, Blob):
                            ctx.check(e['rdlength'] == want.address.n, f'datagram {k}: RDLENGTH of {want.name} is not its rdata length')
                        if isinstance(want, (DNSPointer, DNSService)):
                            tgt = want.alias if isinstance(want, DNSPointer) else want.server
                            off = e['rdata_index'] + (3 if isinstance(want, DNSService) else 0)
                            labels, _ = rd.read_name(off)
                            ctx.check(labels == name_labels(tgt), f'datagram {k}: rdata name of {want.name} reads back as {labels}')
                totals = [totals[0] + nq, totals[1] + nan, totals[2] + nns, totals[3] + nar]
            ctx.check(totals == [len(questions), len(answers), len(auths), len(adds)], f'entries written {totals} differ from entries given: something lost or repeated')
        finally:
            wire.uninstall()

    return fn


def make_send_guard(shape: Dict[str, Any]) -> Any:
    """Zeroconf.async_send: a datagram above the absolute limit is never handed to a socket (and ends the sequence); every
    datagram up to the limit is.  The datagram lengths are solver variables."""

    def fn(ctx: Any) -> None:
        loop = env.begin(ctx, 1000)
        env.use_token_packets(False)
        from zeroconf._logger import QuietLogger

        QuietLogger._seen_logs.clear()  # "warn once" memory is process-wide: every path starts from the same state
        zc = env.make_zc(loop, n_transports=2)
        lens = [ctx.int(f'datagram{i}_octets', 0, 70000) for i in range(2)]
        class Built:  # an outgoing message as async_send uses it: a sequence of encoded datagrams
            def packets(self) -> List[bytes]:
                return [Blob(n) for n in lens]

        zc.async_send(Built())  # type: ignore[arg-type]
        if ctx.twin:
            return
        sent = [len(p) for _t, p, _a in zc.engine.senders[0].transport.sent]
        sent2 = [len(p) for _t, p, _a in zc.engine.senders[1].transport.sent]
        want = []
        for n in lens:
            if n > 8966:
                break
            want.append(n)
        ctx.check(len(sent) == len(want) and all(a == b for a, b in zip(sent, want)), 'datagrams handed to the socket are not exactly the leading ones of at most 8966 octets')
        ctx.check(len(sent2) == len(sent), 'the sockets did not get the same datagrams')

    return fn


def sh(**kw: Any) -> Dict[str, Any]:
    return kw


QUICK = {
    'one-txt': sh(answers=['TXT:a.x.local.']),
    'two-txt': sh(answers=['TXT:a.x.local.', 'TXT:b.x.local.']),
    'txt-then-shared-name': sh(answers=['TXT:a.x.local.'], additionals=['SRV:a.x.local.>h.x.local.', 'A:h.x.local.']),
    'ptr-txt-srv': sh(answers=['PTR:_s._tcp.local.>a._s._tcp.local.', 'TXT:a._s._tcp.local.'], additionals=['SRV:a._s._tcp.local.>h.local.', 'A:h.local.']),
    'query-known-answers': sh(query=True, questions=['Q:_s._tcp.local.'], answers=['TXT:a._s._tcp.local.', 'TXT:b._s._tcp.local.']),
    'query-two-questions': sh(query=True, questions=['Q:_s._tcp.local.', 'Q:_t._tcp.local.'], answers=['TXT:a._s._tcp.local.']),
    'probe': sh(query=True, questions=['Q:_s._tcp.local.'], authorities=['PTR:_s._tcp.local.>a._s._tcp.local.']),
    'unicast-response': sh(multicast=False, questions=['Q:_s._tcp.local.'], answers=['TXT:a._s._tcp.local.'], additionals=['A:h.local.']),
    'hinfo-then-names': sh(answers=['HINFO:h.x.local.', 'TXT:a.x.local.'], additionals=['SRV:a.x.local.>h.x.local.']),
    'empty': sh(),
    # a long question that no longer fits, followed by a question that would (a name already in the datagram): the message id is the only
    # solver variable here, the sizes are concrete (several filler counts so that the leftover space falls between the two question sizes)
    **{f'questions-of-different-sizes-{k}': sh(query=True, questions=[f'Q:_t{i:03d}._tcp.local.' for i in range(k)] + ['Q:' + 'x' * 60 + '._udp.example.', 'Q:_t000._tcp.local.', 'Q:_t001._tcp.local.']) for k in (127, 128, 129)},
    'one-txt-up-to-the-limit': sh(answers=['TXT<=8933:a.x.local.']),  # header 12 + name 11 + fixed 10 + rdata: exactly 8966 at the top
    'a-then-txt-up-to-the-limit': sh(answers=['A:h.x.local.', 'TXT<=8933:a.x.local.']),
    'odd-address-lengths': sh(query=True, questions=['Q:_s._tcp.local.'], answers=['ADDR:h.x.local.', 'ADDR:h.x.local.', 'PTR:_s._tcp.local.>h.x.local.', 'SRV:a.x.local.>h.x.local.']),
    'adds-spill': sh(answers=['A:h.x.local.'], additionals=['TXT:a.x.local.', 'TXT:b.x.local.', 'SRV:a.x.local.>h.x.local.']),
}
THOROUGH = {
    'three-txt': sh(answers=['TXT:a.x.local.', 'TXT:b.x.local.', 'TXT:c.x.local.']),
    'txt-auth-add': sh(answers=['TXT:a.x.local.'], authorities=['PTR:_s._tcp.local.>a.x.local.'], additionals=['TXT:a.x.local.', 'A:h.x.local.']),
    'query-many': sh(query=True, questions=['Q:_s._tcp.local.', 'Q:_t._tcp.local.'], answers=['TXT:a._s._tcp.local.', 'TXT:b._t._tcp.local.', 'PTR:_s._tcp.local.>a._s._tcp.local.']),
    'unicast-query': sh(query=True, multicast=False, questions=['Q:_s._tcp.local.'], answers=['TXT:a._s._tcp.local.', 'TXT:b._s._tcp.local.']),
    'shared-after-two': sh(answers=['TXT:a.x.local.', 'TXT:a.x.local.'], additionals=['SRV:a.x.local.>a.x.local.']),
    # hundreds of entries: the TXT length (0..300) shifts every later packet boundary across several entries
    'many-questions': sh(query=True, questions=[f'Q:_t{i:02d}._tcp.local.' for i in range(80)], answers=['TXT<=300:big._s._tcp.local.'] + [f'PTR:_s._tcp.local.>i{i:03d}._s._tcp.local.' for i in range(60)]),
    'many-answers': sh(answers=['TXT<=300:big._s._tcp.local.'] + [f'PTR:_s._tcp.local.>i{i:03d}._s._tcp.local.' for i in range(110)], additionals=[f'A:h{i:02d}.local.' for i in range(30)]),
}


def obligations(tier: str) -> List[Obligation]:
    shapes = dict(QUICK)
    if tier == 'thorough':
        shapes.update(THOROUGH)
    obs = [Obligation(f'packets[{k}]', make(v), 'packets', {'name': k, **v}, timeout=200 if tier == 'quick' else 900) for k, v in shapes.items()]
    obs.append(Obligation('send-guard[two datagrams of symbolic length]', make_send_guard({}), 'send-guard', {}, timeout=120))
    return obs


META = {
    'explanation': 'The real DNSOutgoing.packets() is run on messages of up to 2 questions and 5 records (A, PTR, SRV, HINFO, TXT) where every TXT rdata is an opaque '
    'blob whose length 0..8900 is a z3 integer and the message id is symbolic; struct packers are replaced by width-preserving value tokens. Every datagram built is '
    'captured before the encoder resets and re-read by an independent reader that follows compression pointers through symbolic offsets. Checked per datagram: octets == '
    'accounted size <= 8966, <= 1460 unless it holds a single entry, header id / flags / TC rule, header counts == entries present, each entry reads back with its own '
    'owner name, type, RDLENGTH and rdata names; over the sequence: every entry exactly once, in order.',
    'functions': [
        'zeroconf._protocol.outgoing.DNSOutgoing.packets/_write_questions_from_offset/_write_answers_from_offset/_write_records_from_offset/_has_more_to_add/'
        '_write_question/_write_record/_check_data_limit_or_rollback/write_name/_write_utf/_write_link_to_name/_write_record_class/_write_ttl/write_string/'
        'write_character_string/write_short/_insert_short_at_start/_replace_short/_reset_for_next_packet', 'DNSText/DNSAddress/DNSPointer/DNSService/DNSHinfo.write', 'Zeroconf.async_send (oversize guard)',
    ],
    'bounds': {'rdata length': [0, MAXLEN], 'id': [0, 65535], 'entries': '<= 7 per message with <= 3 symbolic-length records (0..8900 octets); thorough also 141 entries with one symbolic-length record (0..300 octets)', 'names': 'fixed small vocabulary with shared suffixes'},
    'outside': ['entries that cannot fit 8966 octets even alone (the code emits an empty datagram and stops)', 'more than about 140 entries; several symbolic lengths among hundreds of entries', 'label contents and name sharing patterns beyond the vocabulary (C01)'],
    'stubs': ['DNSOutgoing._get_short/_write_int/_write_byte replaced by width-preserving value tokens (vkit.wire)', 'rdata blobs: bytes subclass with symbolic __len__ (vkit.pkt.Blob)',
              'DNSOutgoing._reset_for_next_packet wrapped to snapshot each datagram before the reset'],
    'float_sites': [],
    'assumptions': ['CrossHair 0.0.110 / z3 5.1.0'],
}
