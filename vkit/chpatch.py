"""Adjustments to CrossHair 0.0.110 needed so that obligations are *exhausted* rather than sampled.

Applied once per worker process, after crosshair.core_and_libs has been imported (its own
registrations are appended at import time and later entries win).
"""
from __future__ import annotations

_done = False


def apply() -> None:
    global _done
    if _done:
        return
    import crosshair.core_and_libs  # noqa: F401  (registers the stock handlers first)
    import crosshair.libimpl.builtinslib as bl

    # 1. floats: only the real-valued model.  The IEEE model sends to_fp(to_real x) to z3 and never
    #    returns; every float site reachable from an obligation is listed in the evidence and has
    #    an exactness lemma (vkit.floatlemmas) or an explicit assumption.
    bl._PYTYPE_TO_WRAPPER_TYPE[float] = ((bl.RealBasedSymbolicFloat, 1.0),)
    # CrossHair caps every run that touched a real-valued float at UNKNOWN because reals only
    # approximate binary64.  Here the approximation is justified separately (float-exactness lemmas
    # in vkit/floatlemmas.py, listed per property under float_sites), so the cap is lifted.
    import crosshair.statespace as ss

    ss.StateSpace.cap_result_at_unknown = lambda self: None  # type: ignore[method-assign]

    # 2. bit operations: stock CrossHair realises `a | b` and `a & 0x8000` value by value.
    import operator as ops

    import z3
    from crosshair.statespace import context_statespace
    from crosshair.tracers import NoTracing

    SymbolicInt = bl.SymbolicInt

    def _runs(mask: int):  # type: ignore[no-untyped-def]
        k = 0
        while mask >> k:
            if (mask >> k) & 1:
                lo = k
                while (mask >> k) & 1:
                    k += 1
                yield lo, k
            else:
                k += 1

    def _and_const(avar, mask: int):  # type: ignore[no-untyped-def]
        # for a >= 0: a & mask = sum over runs [lo,hi) of ((a div 2^lo) mod 2^(hi-lo)) * 2^lo
        total = z3.IntVal(0)
        for lo, hi in _runs(mask):
            total = total + ((avar / (2**lo)) % (2 ** (hi - lo))) * (2**lo)
        return total

    def _sym_nonneg(x) -> bool:  # type: ignore[no-untyped-def]
        return context_statespace().smt_fork(x.var >= 0, probability_true=0.95)

    def _valid(expr) -> bool:  # type: ignore[no-untyped-def]
        solver = context_statespace().solver
        solver.push()
        try:
            solver.add(z3.Not(expr))
            return solver.check() == z3.unsat
        finally:
            solver.pop()

    def _and(op, a, b):  # type: ignore[no-untyped-def]
        with NoTracing():
            if isinstance(b, SymbolicInt) and not isinstance(a, SymbolicInt):
                a, b = b, a
            if isinstance(a, SymbolicInt) and not isinstance(b, SymbolicInt):
                m = b.__index__()
                if m >= 0 and _sym_nonneg(a):
                    return SymbolicInt(_and_const(a.var, m))
            elif isinstance(a, SymbolicInt) and isinstance(b, SymbolicInt):
                if _sym_nonneg(a) and _sym_nonneg(b):
                    return SymbolicInt(z3.BV2Int(z3.Int2BV(a.var, 64) & z3.Int2BV(b.var, 64)))
            return ops.and_(bl.realize(a), bl.realize(b))

    def _or(op, a, b):  # type: ignore[no-untyped-def]
        with NoTracing():
            if isinstance(b, SymbolicInt) and not isinstance(a, SymbolicInt):
                a, b = b, a
            if isinstance(a, SymbolicInt) and not isinstance(b, SymbolicInt):
                m = b.__index__()
                if m >= 0 and _sym_nonneg(a):
                    return SymbolicInt(a.var + m - _and_const(a.var, m))
            elif isinstance(a, SymbolicInt) and isinstance(b, SymbolicInt):
                # `hi << 8 | lo`: when the solver proves the operands occupy disjoint bit ranges the
                # result is their sum (validity check, not a fork)
                for hi_, lo_ in ((a, b), (b, a)):
                    for k in (8, 16, 24):
                        if _valid(z3.And(lo_.var >= 0, lo_.var < 2**k, hi_.var >= 0, hi_.var % (2**k) == 0)):
                            return SymbolicInt(hi_.var + lo_.var)
                if _sym_nonneg(a) and _sym_nonneg(b):
                    return SymbolicInt(z3.BV2Int(z3.Int2BV(a.var, 64) | z3.Int2BV(b.var, 64)))
            return ops.or_(bl.realize(a), bl.realize(b))

    from numbers import Integral

    for op, fn in ((ops.and_, _and), (ops.or_, _or)):
        for ta, tb in ((SymbolicInt, Integral), (Integral, SymbolicInt), (SymbolicInt, SymbolicInt)):
            bl._BIN_OPS_SEARCH_ORDER.append((op, ta, tb, fn))
    bl._BIN_OPS.clear()

    # 3. formatting: f-strings / format() of a symbolic number would realise it (one path per value);
    #    the library and the harnesses only format such values into log / exception / report text.
    import crosshair.core as core

    _stock_format = core._PATCH_REGISTRATIONS.get(format, bl._format)

    def _format(obj, format_spec=''):  # type: ignore[no-untyped-def]
        with NoTracing():
            if isinstance(obj, (bl.SymbolicInt, bl.SymbolicFloat, bl.SymbolicBool)):
                return '<sym>'
            if type(obj) in (list, tuple, dict, set):
                return f'<{type(obj).__name__} of {len(obj)}>'  # may hold symbolic values: never realise for a message
        return _stock_format(obj, format_spec)

    core._PATCH_REGISTRATIONS[format] = _format

    # 4. int(real-valued symbolic float): truncation toward zero as a solver term instead of a realisation
    _stock_int = bl._int

    def _int(val=0, base=bl._MISSING):  # type: ignore[no-untyped-def]
        with NoTracing():
            if base is bl._MISSING:
                if isinstance(val, bl.RealBasedSymbolicFloat):
                    v = val.var
                    return SymbolicInt(z3.If(v >= 0, z3.ToInt(v), -z3.ToInt(-v)))
            from crosshair.util import CrossHairValue

            if not isinstance(val, CrossHairValue) and not isinstance(base, CrossHairValue):
                return int(val) if base is bl._MISSING else int(val, base)  # concrete: native conversion
        return _stock_int(val, base) if base is not bl._MISSING else _stock_int(val)

    core._PATCH_REGISTRATIONS[int] = _int

    # 5. str.join over vkit.symstr.SymStr items (C19): concatenation of the symbolic strings
    from .symstr import SymStr
    from .symstr import join as _sym_join

    _stock_join = core._PATCH_REGISTRATIONS.get(str.join, bl._str_join)

    def _str_join(self, itr):  # type: ignore[no-untyped-def]
        with NoTracing():
            items = list(itr) if isinstance(itr, (list, tuple)) else None
            symbolic = items is not None and any(isinstance(x, SymStr) for x in items)
        if symbolic:
            return _sym_join(self, items)
        return _stock_join(self, itr)

    core._PATCH_REGISTRATIONS[str.join] = _str_join

    # 6. set.add on CrossHair's set model nests one lazy union per element, and len() of that nest costs
    #    O(n^3) traced comparisons (a 128-element `seen_pointers` set took 20 s).  Same semantics, flat:
    #    membership is decided (by the same element comparisons) when the element is added.
    import crosshair.simplestructs as st

    _stock_add = st.ShellMutableSet.add

    def _add(self, x):  # type: ignore[no-untyped-def]
        with NoTracing():
            inner = self._inner
            flat = type(inner) in (st.LinearSet, st.EmptySet) and (type(inner) is st.EmptySet or type(inner._items) in (list, tuple))
        if not flat:
            return _stock_add(self, x)
        if not st.is_hashable(x):
            raise TypeError('unhashable type')
        if x in inner:
            return None
        with NoTracing():
            items = [] if type(inner) is st.EmptySet else list(inner._items)
            items.append(x)
            self._inner = st.LinearSet(items)
        return None

    st.ShellMutableSet.add = _add  # type: ignore[method-assign]
    _done = True
