#!/bin/sh
# Offline set-up: overlay venv on top of /venv (which holds the repository's own dependencies)
# with crosshair-tool + z3-solver from the local wheelhouse.
set -e
HERE="$(cd "$(dirname "$0")" && pwd)"
cd "$HERE"
if [ ! -x .venv/bin/python ] || ! .venv/bin/python -c "import crosshair, z3" 2>/dev/null; then
  rm -rf .venv
  /venv/bin/python -m venv .venv
  SP=$(.venv/bin/python -c "import sysconfig; print(sysconfig.get_paths()['purelib'])")
  printf '/venv/lib/python3.12/site-packages\n/repo/src\n' > "$SP/_overlay.pth"
  PIP_NO_INDEX=1 .venv/bin/pip install --quiet --no-index --find-links /opt/veriftools/wheels crosshair-tool z3-solver
fi
.venv/bin/python -c "import crosshair, z3, zeroconf; print('setup ok', z3.get_version_string(), zeroconf.__file__)"
mkdir -p evidence
