"""C09 - registration probes first, detects conflicts, then announces completely.

Engine E1: the real coroutine Zeroconf.async_register_service (async_wait_for_start, async_check_service,
generate_service_query, _async_broadcast_service) runs as a task on the fake loop.  Start instant, the
arrival instant of a conflicting (or unrelated) pointer record relative to the probes, its TTL and the
service's TTLs are solver variables.
"""
from __future__ import annotations

from typing import Any, Dict, List, Optional, Tuple

from vkit import env
from vkit.build import Spec, mk_incoming
from vkit.responder import V4A, V4B, V6A, V6B, Svc
from vkit.runner import Obligation
from zeroconf import const
from zeroconf._exceptions import NonUniqueNameException

PROPERTY = 'C09'
T1 = '_http._tcp.local.'
NAME = 'Alpha._http._tcp.local.'
QUERY_AA = const._FLAGS_QR_QUERY | const._FLAGS_AA
RESP_AA = const._FLAGS_QR_RESPONSE | const._FLAGS_AA
CHECK, REG = const._CHECK_TIME, const._REGISTER_TIME


def make(shape: Dict[str, Any]) -> Any:
    fam = shape.get('addresses', 'v4')
    allow = shape.get('allow_name_change', False)
    taken: List[str] = shape.get('taken', [])  # names already advertised by others, cached before the start
    incoming = shape.get('incoming')  # None | 'conflict' | 'unrelated' | 'conflict-lowercase-alias'
    custom_ttl = shape.get('custom_ttl', False)
    offset_max = shape.get('offset_max', 1000)
    TYPE_ = shape.get('type', T1)  # a type that is only valid in non-strict mode goes with strict=False
    NAME_ = f'Alpha.{TYPE_}'
    strict = shape.get('strict', True)

    def fn(ctx: Any) -> None:
        t0 = ctx.int('t0', 5000, 2**40)
        loop = env.begin(ctx, t0)
        env.use_token_packets(True)
        zc = env.make_zc(loop)
        v4 = [V4A] if fam in ('v4', 'dual') else []
        v6 = [V6A] if fam in ('v6', 'dual') else []
        if fam == 'two-v4':
            v4 = [V4A, V4B]
        host_ttl = ctx.int('host_ttl', 1, 2**31 - 1)
        other_ttl = ctx.int('other_ttl', 1, 2**31 - 1)
        svc = Svc('S', TYPE_, NAME_, 'alpha.local.', 80, v4, v6, host_ttl=host_ttl, other_ttl=other_ttl)
        info = svc.info()
        reg_ttl: Optional[Any] = None
        if custom_ttl:
            reg_ttl = ctx.int('register_ttl', 1, 2**31 - 1)
            svc.host_ttl = svc.other_ttl = reg_ttl
        for n in taken:
            zc.cache.async_add_records([Spec('PTR', TYPE_, alias=n).make(4500, t0 - 10, False)])
        for n in shape.get('expired_taken', []):
            # an expired, not yet purged pointer: it is no conflict by itself, and a fresh copy arriving later
            # refreshes it in place (no "new record" notification wakes the waiting registration)
            zc.cache.async_add_records([Spec('PTR', TYPE_, alias=n).make(1, t0 - 4000, False)])
        task = loop.create_task(zc.async_register_service(info, reg_ttl, allow, False, strict))
        arrival: Optional[Any] = None
        effective_conflict = False
        if incoming is not None:
            arrival = t0 + ctx.int('arrival_offset', 0, offset_max)
            loop.advance_to(arrival)
            cttl = ctx.int('incoming_ttl', 0, 2**32 - 1)
            alias = {'conflict': NAME_, 'unrelated': 'Other._http._tcp.local.'}[incoming]
            rec = Spec('PTR', TYPE_, alias=alias).make(cttl, loop.now_ms, False)
            zc.record_manager.async_updates_from_response(mk_incoming(loop.now_ms, [rec]))
            effective_conflict = incoming == 'conflict' and cttl != 0
        loop.advance_by(3000)
        if ctx.twin:
            return
        ctx.check(not loop.callback_exceptions, f'exception escaped into the loop: {loop.callback_exceptions[:1]}')
        sends = env.sent_log(zc)
        probes = [s for s in sends if s.out.is_query()]
        announces = [s for s in sends if not s.out.is_query()]
        for s in sends:
            ctx.check(s.multicast, 'probe / announcement not sent to the mDNS group')
        # ---- which name must win
        names_taken = [n.lower() for n in taken]
        final_name: Optional[str] = NAME_
        must_fail = False
        detected = False
        undecided = False
        if NAME_.lower() in names_taken:
            detected = True
        elif effective_conflict:
            if arrival < t0 + 2 * CHECK:
                detected = True
            elif arrival == t0 + 2 * CHECK:
                undecided = True  # arrives at the very instant of the last check: either order is acceptable
        if undecided:
            return
        restart: Any = t0
        if detected:
            if not allow:
                must_fail = True
                final_name = None
            else:
                k = 2
                while f'Alpha-{k}.{TYPE_}'.lower() in names_taken:
                    k += 1
                final_name = f'Alpha-{k}.{TYPE_}'
                restart = t0 if NAME_.lower() in names_taken else arrival
        # ---- outcome
        ctx.check(task.done(), 'async_register_service did not finish within 3 s')
        if must_fail:
            ctx.check(isinstance(task._exc, NonUniqueNameException), f'registration of a name in use did not fail with NonUniqueNameException ({task._exc!r})')
            ctx.check(not announces, 'a name in use was announced')
            ctx.check(zc.registry.async_get_info_name(NAME_.lower()) is None, 'a name in use was put into the registry')
            return
        ctx.check(task._exc is None, f'registration failed: {task._exc!r}')
        assert final_name is not None
        ctx.check(info.name == final_name, f'registered as {info.name}, expected the first free name {final_name}')
        ctx.check([i.name for i in zc.registry.async_get_service_infos()] == [final_name], 'registry does not hold exactly the registered name')
        # ---- probes: the last three are for the final name, 175 ms apart.  After a rename they restart when the
        #      conflict is noticed: at its arrival when the waiting coroutine is woken (a new record), or at the next
        #      scheduled check when it is not (a cached copy refreshed in place)
        final_probes = [p for p in probes if p.out.authorities and p.out.authorities[0].alias == final_name]
        if detected and allow and NAME_.lower() not in names_taken:
            next_check = t0 + CHECK if arrival < t0 + CHECK else t0 + 2 * CHECK
            if ctx.check(len(final_probes) >= 1, 'no probe for the new name'):
                restart = final_probes[0].t
                ctx.check(restart == arrival or restart == next_check, 'probing for the new name did not restart when the conflict was noticed')
        want_probe_times = [restart, restart + CHECK, restart + 2 * CHECK]
        ctx.check([p.t for p in final_probes] == want_probe_times, f'probes for the final name not at start, +{CHECK}, +{2 * CHECK} ms')
        for p in probes:
            o = p.out
            ctx.check(o.flags == QUERY_AA and not o.answers and not o.additionals, 'probe is not a bare query with an authority section')
            ok_q = len(o.questions) == 1 and o.questions[0].name == TYPE_ and o.questions[0].type == const._TYPE_PTR and o.questions[0].unicast and o.questions[0].class_ == const._CLASS_IN
            ctx.check(ok_q, 'probe question is not a QU PTR question for the service type')
            ok_a = len(o.authorities) == 1 and o.authorities[0].name == TYPE_ and o.authorities[0].type == const._TYPE_PTR
            ctx.check(ok_a, 'probe authority section is not the proposed pointer')
            ctx.check(p.t <= restart + 2 * CHECK, 'probe sent after the registration completed')
        if detected:
            for p in probes:
                if p.out.authorities and p.out.authorities[0].alias == NAME_:
                    ctx.check(p.t <= restart, 'the conflicting name was probed for after the conflict was known')
        else:
            ctx.check(len(probes) == 3, f'{len(probes)} probes sent for an uncontested name')
        # ---- announcements
        done_at = restart + 2 * CHECK
        ctx.check([a.t for a in announces] == [done_at, done_at + REG, done_at + 2 * REG], f'announcements not at the last probe, +{REG}, +{2 * REG} ms')
        svc.name = final_name
        expected = {spec.ident: (spec, ttl, uniq) for spec, ttl, uniq in svc.all_records()}
        for a in announces:
            o = a.out
            ctx.check(o.flags == RESP_AA and not o.questions and not o.authorities, 'announcement is not an authoritative response without questions')
            got: Dict[Tuple, Any] = {}
            for r in a.records():
                ident = None
                for i_, (spec, _, _) in expected.items():
                    if spec.make(0, 1) == r:
                        ident = i_
                ctx.check(ident is not None, f'announcement carries an unexpected record {r.name}/{r.type}')
                if ident is not None:
                    ctx.check(ident not in got, 'announcement lists a record twice')
                    got[ident] = r
            ctx.check(sorted(got) == sorted(expected), f'announcement records {[g[:3] for g in sorted(got)]} but PTR, SRV, TXT, every address and NSEC are {[e[:3] for e in sorted(expected)]}')
            for ident, r in got.items():
                _, ttl, uniq = expected[ident]
                ctx.check(r.ttl == ttl, f'announced {ident[:3]} does not carry the configured TTL')
                ctx.check(r.unique == uniq, f'announced {ident[:3]}: cache-flush bit must be set on unique records only')
            for r in a.records():
                ctx.check(getattr(r, 'alias', None) != NAME_ or final_name == NAME_, 'the conflicting name was announced')

    return fn


def sh(**kw: Any) -> Dict[str, Any]:
    return kw


QUICK = {
    'plain-v4': sh(),
    'plain-v6': sh(addresses='v6'),
    'plain-dual-custom-ttl': sh(addresses='dual', custom_ttl=True),
    'conflict-during': sh(incoming='conflict'),
    'conflict-during-rename': sh(incoming='conflict', allow_name_change=True),
    'conflict-before': sh(taken=[NAME]),
    'conflict-before-rename': sh(taken=[NAME], allow_name_change=True),
    'chain-rename': sh(taken=[NAME, 'Alpha-2._http._tcp.local.'], allow_name_change=True),
    'unrelated-during': sh(incoming='unrelated'),
    'conflict-during-refreshes-expired-entry': sh(incoming='conflict', expired_taken=[NAME]),
    'conflict-during-refreshes-expired-entry-rename': sh(incoming='conflict', expired_taken=[NAME], allow_name_change=True),
    # a service type that is only acceptable in non-strict mode (underscore inside the label), registered with strict=False
    'nonstrict-plain': sh(type='_ibisip_http._tcp.local.', strict=False),
    'nonstrict-conflict-before-rename': sh(type='_ibisip_http._tcp.local.', strict=False, taken=['Alpha._ibisip_http._tcp.local.'], allow_name_change=True),
    'nonstrict-conflict-during-rename': sh(type='_ibisip_http._tcp.local.', strict=False, incoming='conflict', allow_name_change=True),
}
THOROUGH = {
    'plain-two-v4': sh(addresses='two-v4'),
    'chain3-rename': sh(taken=[NAME, 'Alpha-2._http._tcp.local.', 'Alpha-3._http._tcp.local.'], allow_name_change=True),
    'conflict-during-rename-chain': sh(incoming='conflict', allow_name_change=True, taken=['Alpha-2._http._tcp.local.']),
    'conflict-during-dual': sh(incoming='conflict', addresses='dual'),
    'conflict-during-rename-custom-ttl': sh(incoming='conflict', allow_name_change=True, custom_ttl=True),
    'unrelated-during-rename': sh(incoming='unrelated', allow_name_change=True),
    'taken-other-name-only': sh(taken=['Alpha-2._http._tcp.local.']),
}


def obligations(tier: str) -> List[Obligation]:
    shapes = dict(QUICK)
    if tier == 'thorough':
        shapes.update(THOROUGH)
    return [Obligation(f'register[{k}]', make(v), 'register', {'name': k, **v}, timeout=200 if tier == 'quick' else 900) for k, v in shapes.items()]


META = {
    'explanation': 'The real async_register_service coroutine runs as a task on the fake loop of a socket-less instance. Start instant, '
    'host_ttl/other_ttl (or the ttl argument), and for a conflicting or unrelated pointer record its arrival offset 0..1000 ms after the start '
    'and its TTL 0..2^32-1 are z3 integers; caches may be pre-populated with taken names. Probe schedule and contents, the outcome '
    '(NonUniqueNameException / first free -N name), the announcement schedule, record set, TTLs and flush marking are compared with the statement.',
    'functions': [
        'zeroconf._core.Zeroconf.async_register_service/async_wait_for_start/async_check_service/async_wait/generate_service_query/'
        '_async_broadcast_service/generate_service_broadcast/_add_broadcast_answer/async_send/async_notify_all',
        'zeroconf._cache.DNSCache.current_entry_with_name_and_alias', 'zeroconf._services.info.instance_name_from_service_info, ServiceInfo.name setter, '
        'dns_pointer/dns_service/dns_text/get_address_and_nsec_records', 'ServiceRegistry.async_add', '_utils.asyncio.wait_for_future_set_or_timeout/'
        'wait_event_or_timeout', 'RecordManager.async_updates_from_response',
    ],
    'bounds': {'t0': [5000, 2**40], 'service ttls': [1, 2**31 - 1], 'arrival offset ms': [0, 1000], 'incoming ttl': [0, 2**32 - 1], 'taken names': '<= 3'},
    'outside': ['a conflict arriving exactly at the instant of the last probe check (either outcome accepted)', 'cooperating_responders=True', 'differently spelled conflicting names',
                'answering of probes by the owner (C11/C12)', 'wire bytes of the probe / announcement (C01, C11 wire obligations)'],
    'stubs': env.STUBS,
    'float_sites': ['const._DNS_PTR_MIN_TTL = 1125.0 (exact)'],
    'assumptions': ['CrossHair 0.0.110 / z3 5.1.0', 'timers fire exactly on time; asyncio.timeout / Event / sleep run unmodified on the fake loop'],
}
