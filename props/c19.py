"""C19 - service names are validated per RFC 6763 and TXT properties round-trip.

(a) Engine E1 on the real body of zeroconf._utils.name.service_type_name (undecorated): the argument is a
vkit.symstr.SymStr - concrete structure (length, dots, fixed suffix characters), the other characters are
solver integers ranging over a stated alphabet of code points; the regex objects of the module are replaced
by character-class stand-ins rebuilt from the real pattern texts.  Oracle: the documented rule list.
(b) TXT encode / decode of ServiceInfo with symbolic key / value lengths and an independent RFC 6763
section 6 reader (structure enumerated, octet values concrete).
"""
from __future__ import annotations

from typing import Any, Dict, List, Optional, Tuple

import zeroconf._utils.name as name_mod
from vkit import env
from vkit.runner import Obligation
from vkit.symstr import ClassPattern, SymStr, join
from zeroconf._exceptions import BadTypeInNameException
from zeroconf._services.info import ServiceInfo

PROPERTY = 'C19'
# alphabet of the symbolic characters: lower / upper letter, digit, hyphen, underscore, control, punctuation,
# 2- and 3-octet non-ASCII, DEL, newline, space, and 's' 'u' 'b' (so that '_sub' can arise)
ALPHABET = [ord(c) for c in 'aZ7-_\x01!é☃\x7f\n sub']
REAL_FN = name_mod.service_type_name.__wrapped__
PATTERNS = ('_HAS_A_TO_Z', '_HAS_ONLY_A_TO_Z_NUM_HYPHEN', '_HAS_ONLY_A_TO_Z_NUM_HYPHEN_UNDERSCORE', '_HAS_ASCII_CONTROL_CHARS')


def is_letter(c: Any) -> Any:
    return ((65 <= c) & (c <= 90)) | ((97 <= c) & (c <= 122))


def is_digit(c: Any) -> Any:
    return (48 <= c) & (c <= 57)


def is_control(c: Any) -> Any:
    return ((0 <= c) & (c <= 0x1F)) | (c == 0x7F)


def spec(s: SymStr, strict: bool) -> Tuple[Any, Optional[SymStr], List[str]]:
    """(accepted, service type to return, names of the documented rules that are violated)."""
    bad: List[str] = []
    if len(s) > 256:
        bad.append('whole name longer than 256 characters')
    if s.endswith('._tcp.local.') | s.endswith('._udp.local.'):
        head, trailer, has_protocol = s[:-12], s[-12:], True
    elif strict:
        return False, None, ['strict mode requires ._tcp.local. or ._udp.local.']
    elif s.endswith('.local.'):
        head, trailer, has_protocol = s[:-7], SymStr.of('local.'), False
    else:
        return False, None, ['name must end with .local.']
    labels = head.split('.')
    service = SymStr([])
    if has_protocol:
        service = labels.pop()
        if len(service) == 0:
            bad.append('no service label')
        elif len(labels) == 1 and len(labels[0]) == 0:
            bad.append('name starts with a dot')
        else:
            if not (service[0] == '_'):
                bad.append('service label must start with an underscore')
            rest = service.chars[1:]
            if len(rest) == 0:
                bad.append('service label has nothing after the underscore')
            else:
                if strict and len(rest) > 15:
                    bad.append('service label longer than 15 characters')
                dd: Any = False
                for i in range(len(rest) - 1):
                    dd = dd | ((rest[i] == 45) & (rest[i + 1] == 45))
                if dd:
                    bad.append('double hyphen')
                if (rest[0] == 45) | (rest[-1] == 45):
                    bad.append('leading or trailing hyphen')
                letter: Any = False
                allowed: Any = True
                for c in rest:
                    letter = letter | is_letter(c)
                    allowed = allowed & (is_letter(c) | is_digit(c) | (c == 45) | ((c == 95) if not strict else False))
                if not letter:
                    bad.append('no letter in the service label')
                if not allowed:
                    bad.append('character other than letters, digits, hyphen' + ('' if strict else ', underscore'))
    if labels and labels[-1] == '_sub':
        labels.pop()
        if len(labels) == 0 or len(labels[0]) == 0:
            bad.append('_sub without a subtype name')
    if labels:
        inst = join('.', labels)
        if inst.utf8_len() > 63:
            bad.append('instance / subtype label longer than 63 octets')
        ctrl: Any = False
        for c in inst.chars:
            ctrl = ctrl | is_control(c)
        if ctrl:
            bad.append('ASCII control character in the instance label')
    return (not bad), service + trailer, bad


def make_name(shape: Dict[str, Any]) -> Any:
    template: str = shape['template']  # '?' = symbolic character, everything else literal
    strict: bool = shape['strict']

    def fn(ctx: Any) -> None:
        env.begin(ctx, 1000)
        chars: List[Any] = []
        k = 0
        for ch in template:
            if ch == '?':
                c = ctx.int(f'char{k}', 0, 0x2603)
                k += 1
                member: Any = False
                for a in ALPHABET:
                    member = member | (c == a)
                ctx.assume(member)
                chars.append(c)
            else:
                chars.append(ord(ch))
        s = SymStr(chars)
        if ctx.mode == 'replay':
            arg: Any = s.concrete()
            saved = {}
        else:
            arg = s
            saved = {p: getattr(name_mod, p) for p in PATTERNS}
            for p in PATTERNS:
                setattr(name_mod, p, ClassPattern(saved[p]))
        try:
            try:
                got = REAL_FN(arg, strict=strict)
                outcome = 'accept'
            except BadTypeInNameException:
                got, outcome = None, 'reject'
            except Exception as e:
                ctx.check(False, f'{type(e).__name__} instead of BadTypeInNameException')
                return
        finally:
            for p, v in saved.items():
                setattr(name_mod, p, v)
        if ctx.twin:
            return
        want_accept, want_ret, violated = spec(s, strict)
        if outcome == 'accept':
            ctx.check(want_accept, f'accepted although: {"; ".join(violated)}')
            if want_accept and want_ret is not None:
                ctx.check(SymStr.of(got) == want_ret, 'the returned string is not the service type')
        else:
            ctx.check(not want_accept, 'rejected although every documented rule is met')

    return fn


# ------------------------------------------------------------------ TXT properties


def rfc6763_txt(text: bytes) -> List[Tuple[bytes, Optional[bytes]]]:
    """Independent reader: length-prefixed items, key up to the first '=', first occurrence of a key wins."""
    out: List[Tuple[bytes, Optional[bytes]]] = []
    seen = set()
    i = 0
    while i < len(text):
        n = text[i]
        item = text[i + 1:i + 1 + n]
        i += 1 + n
        if b'=' in item:
            k, v = item.split(b'=', 1)
            val: Optional[bytes] = v
        else:
            k, val = item, None
        if k not in seen:
            seen.add(k)
            out.append((k, val))
    return out


def make_txt(shape: Dict[str, Any]) -> Any:
    items: List[Tuple[str, Any, str]] = shape['items']  # (key kind, key filler, value kind)

    def fn(ctx: Any) -> None:
        env.begin(ctx, 1000)
        props: Dict[Any, Any] = {}
        expect: List[Tuple[bytes, Optional[bytes]]] = []
        for i, (kkind, kfill, vkind) in enumerate(items):
            klo, khi, vlo, vhi = shape.get('ranges', (1, 6, 0, 6))
            klen = ctx.int(f'keylen{i}', klo, khi)
            vlen = ctx.int(f'vallen{i}', vlo, vhi)
            from vkit.pkt import concretize

            klen, vlen = concretize(klen), concretize(vlen)  # lengths select real byte strings: enumerated through the solver (<= 40 x 211)
            kb = (kfill * klen)[:klen].encode() + str(i).encode()
            key: Any = kb.decode() if kkind == 'str' else kb
            if vkind == 'none':
                val: Any = None
                eb: Optional[bytes] = None
            elif vkind == 'str':
                val = 'v' * vlen
                eb = val.encode()
            elif vkind == 'int':
                val = vlen
                eb = str(vlen).encode()
            else:
                val = bytes([0xFF, 0x3D, 0x00])[: min(vlen, 3)] + b'x' * max(0, vlen - 3)
                eb = val
            props[key] = val
            expect.append((kb, eb))
        info = ServiceInfo('_http._tcp.local.', 'Alpha._http._tcp.local.', 80, properties=props)
        if ctx.twin:
            return
        text = info.text
        total = 0
        for kb, eb in expect:
            total += 1 + len(kb) + (0 if eb is None else 1 + len(eb))
        ctx.check(len(text) == total, 'TXT rdata length is not the sum of the length-prefixed items')
        ind = rfc6763_txt(text)
        ctx.check(ind == expect, 'independent RFC 6763 reader does not recover the keys and values')
        lib = info.properties
        want = {k: (v if v else None) for k, v in expect}  # the library reads an empty value back as no value
        # (when every key and value was given as bytes the library hands the caller's dict back: an empty value may then still be b'')
        ctx.check({k: (v or None) for k, v in lib.items()} == want if all(isinstance(k, bytes) and (v is None or isinstance(v, bytes)) for k, v in lib.items()) else False, 'ServiceInfo.properties does not return the keys and values as bytes')
        info2 = ServiceInfo('_http._tcp.local.', 'Alpha._http._tcp.local.', 80, properties=text)
        ctx.check(info2.properties == want, 'properties decoded from the TXT bytes differ')
        # the string view of the same data (UTF-8 with replacement), read after the bytes view and again after a TXT update
        def as_text(d: Dict[bytes, Optional[bytes]]) -> Dict[str, Optional[str]]:
            return {k.decode('utf-8', 'replace'): (None if v is None else v.decode('utf-8', 'replace')) for k, v in d.items()}

        ctx.check(info2.decoded_properties == as_text(want), 'decoded_properties is not the text form of the decoded keys and values')
        info2._set_text(b'\x03z=9' + text)  # what a TXT record update does
        want2: Dict[bytes, Optional[bytes]] = {b'z': b'9'}
        want2.update({k: v for k, v in want.items() if k != b'z'})
        ctx.check(info2.properties == want2 and info2.decoded_properties == as_text(want2), 'after a TXT update the decoded views still show the old data')
        info2._set_text(b'')  # the service now advertises no properties at all (the encoding of the empty dictionary)
        ctx.check(info2.text == b'' and info2.properties == {} and info2.decoded_properties == {}, 'an update to the empty TXT is ignored')
        info3 = ServiceInfo('_http._tcp.local.', 'Alpha._http._tcp.local.')  # resolved later: the application reads the (empty) properties first
        ctx.check(info3.properties == {} and info3.decoded_properties == {}, 'a description without TXT data has properties')
        info3._set_text(text)
        ctx.check(info3.properties == want and info3.decoded_properties == as_text(want), 'the decoded views stay empty after the first TXT record arrived')

    return fn


def obligations(tier: str) -> List[Obligation]:
    obs = []
    quick_templates = [
        '_?._tcp.local.', '_??._tcp.local.', '??._tcp.local.', '_a??._udp.local.', '_a?-?._tcp.local.',
        '?._a?._tcp.local.', '??._sub._a?._tcp.local.', '._sub._a?._tcp.local.', '._a?._tcp.local.', '_._tcp.local.',
        '?.?._a?._tcp.local.', '_a?.local.', '??.local.', '_a?._tcp.local', '_a?._tcp.loca?.', '_a?._?cp.local.',
        '_abcdefghijklmn?._tcp.local.', '_abcdefghijklmn??._tcp.local.',
        'x' * 31 + '.' + 'y' * 30 + '??._a?._tcp.local.', 'x' * 62 + '?._a?._tcp.local.', 'x' * 61 + '??._a?._tcp.local.',
        'y' * 50 + '.' + 'y' * 63 + '.' + 'y' * 63 + '.' + 'y' * 61 + '?._ab._tcp.local.',
    ]
    thorough_templates = quick_templates + [
        '_???._udp.local.', '_???-?._tcp.local.', '_?-?-?._tcp.local.', '???._tcp.local.', '?.?._sub._a?._tcp.local.', '?._su?._a?._tcp.local.',
        '??.?._a?._udp.local.', '_????._tcp.local.', '?.??.local.', '._a?.local.', '_sub._a?._tcp.local.',
        '_abcdefghijklm???._tcp.local.', 'x' * 60 + '???._a?._tcp.local.',
        'y' * 60 + '.' + 'y' * 63 + '.' + 'y' * 63 + '.' + 'y' * 50 + '??._ab._tcp.local.',
    ]
    for t in (quick_templates if tier == 'quick' else thorough_templates):
        for strict in (True, False):
            label = t if len(t) < 60 else t[:6] + f'..({len(t)} chars)..' + t[-22:]
            shape = {'template': t, 'strict': strict}
            obs.append(Obligation(f'name[{label};{"strict" if strict else "non-strict"}]', make_name(shape), 'name', shape, timeout=150 if tier == 'quick' else 900))
    txt_shapes = {
        'one-bytes': [('bytes', 'k', 'bytes')],
        'one-str-none': [('str', 'k', 'none')],
        'bytes-key-str-value': [('bytes', 'k', 'str')],
        'bytes-key-int-value': [('bytes', 'k', 'int'), ('bytes', 'j', 'none')],
        'two-mixed': [('str', 'a', 'str'), ('bytes', 'b', 'int')],
    }
    if tier == 'thorough':
        txt_shapes['three'] = [('bytes', 'a', 'none'), ('str', 'b', 'bytes'), ('bytes', 'c', 'str')]
    for k, items in txt_shapes.items():
        obs.append(Obligation(f'txt[{k}]', make_txt({'items': items}), 'txt', {'items': items}, timeout=280 if tier == 'quick' else 1500, twin=False))
    big = {'items': [('bytes', 'k', 'bytes')], 'ranges': (40, 43, 205, 210)}  # item length 247..255 octets with the key suffix and '='
    obs.append(Obligation('txt[one-bytes;near-255]', make_txt(big), 'txt', big, timeout=280 if tier == 'quick' else 1500, twin=False))
    return obs


META = {
    'explanation': 'name[*]: the real (undecorated) service_type_name runs on a string with concrete structure (length, dots, literal characters of the template) whose `?` characters '
    'are z3 integers over a 15-character alphabet (letters, digit, hyphen, underscore, control, DEL, newline, space, punctuation, 2- and 3-octet non-ASCII); regex objects are replaced by '
    'character-class stand-ins rebuilt from the real pattern texts (including the "$ matches before a final newline" rule). Oracle, both strict modes: only BadTypeInNameException may be raised; '
    'accepted => every documented rule holds and the return value is service label + trailer; rejected => some documented rule is violated. Templates place the symbolic characters in the '
    'service label, instance / subtype labels, protocol and suffix, at the 15/16-character, 63/64-octet and 256/257-character boundaries. txt[*]: ServiceInfo(properties=dict) with '
    'key / value lengths chosen by the solver (small ranges and the 255-octet item boundary, enumerated through realisation) against an independent RFC 6763 section 6 reader and the library decoder.',
    'functions': ['zeroconf._utils.name.service_type_name (all branches)', 'zeroconf._services.info.ServiceInfo.__init__/_set_properties/_set_text/_unpack_text_into_properties/_generate_decoded_properties/properties/decoded_properties'],
    'bounds': {'symbolic characters per name': '<= 4 (quick) / <= 5 (thorough), alphabet of 15 code points', 'name length': '<= 300', 'TXT': '<= 3 items, key 2..7 octets and value 0..6 octets, plus one item of 247..255 octets'},
    'outside': ['characters outside the alphabet; more than 5 free characters; dots at symbolic positions', 'TXT octet *values* (structure and lengths only); items longer than 255 octets'],
    'stubs': ['string argument: vkit.symstr.SymStr (len, index, slice, ==, in, endswith, split on structural dots, encode -> symbolic UTF-8 length)',
              'module regexes _HAS_A_TO_Z / _HAS_ONLY_A_TO_Z_NUM_HYPHEN(_UNDERSCORE) / _HAS_ASCII_CONTROL_CHARS replaced by vkit.symstr.ClassPattern built from their pattern text',
              'native replay calls the real function on a real str with the real regexes'],
    'float_sites': [],
    'assumptions': ['CrossHair 0.0.110 / z3 5.1.0'],
}
