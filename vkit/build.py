"""Builders for real library objects used by the obligations (no wire parsing involved)."""
from __future__ import annotations

from typing import Any, Dict, List, Optional, Sequence, Tuple

from zeroconf import const
from zeroconf._dns import (
    DNSAddress,
    DNSHinfo,
    DNSNsec,
    DNSPointer,
    DNSQuestion,
    DNSRecord,
    DNSService,
    DNSText,
)
from zeroconf._protocol.incoming import DNSIncoming

IN = const._CLASS_IN
UNIQUE = const._CLASS_UNIQUE


class Spec:
    """Concrete description of one resource record (everything but TTL / created / flush bit)."""

    def __init__(self, kind: str, name: str, **rd: Any) -> None:
        self.kind, self.name, self.rd = kind, name, rd

    # identity as the property states it: owner name case-insensitively, type, class, rdata
    @property
    def type(self) -> int:
        return {
            'A': const._TYPE_A,
            'AAAA': const._TYPE_AAAA,
            'PTR': const._TYPE_PTR,
            'CNAME': const._TYPE_CNAME,
            'TXT': const._TYPE_TXT,
            'SRV': const._TYPE_SRV,
            'HINFO': const._TYPE_HINFO,
            'NSEC': const._TYPE_NSEC,
        }[self.kind]

    @property
    def ident(self) -> Tuple:
        rd = self.rd
        if self.kind in ('PTR', 'CNAME'):
            r: Tuple = (rd['alias'].lower(),)
        elif self.kind == 'SRV':
            r = (rd.get('priority', 0), rd.get('weight', 0), rd.get('port', 80), rd['server'].lower())
        elif self.kind in ('A', 'AAAA'):
            r = (rd['address'], rd.get('scope_id'))
        elif self.kind == 'TXT':
            r = (rd['text'],)
        elif self.kind == 'HINFO':
            r = (rd['cpu'], rd['os'])
        else:
            r = (rd['next_name'], tuple(sorted(rd['rdtypes'])))
        return (self.kind if self.kind != 'CNAME' else 'PTR', self.name.lower(), self.type, IN) + r

    def make(self, ttl: Any, created: Any, unique: bool = False) -> DNSRecord:
        cls = IN | UNIQUE if unique else IN
        rd, n, t = self.rd, self.name, self.type
        if self.kind in ('PTR', 'CNAME'):
            return DNSPointer(n, t, cls, ttl, rd['alias'], created)
        if self.kind == 'SRV':
            return DNSService(n, t, cls, ttl, rd.get('priority', 0), rd.get('weight', 0), rd.get('port', 80), rd['server'], created)
        if self.kind in ('A', 'AAAA'):
            return DNSAddress(n, t, cls, ttl, rd['address'], rd.get('scope_id'), created)
        if self.kind == 'TXT':
            return DNSText(n, t, cls, ttl, rd['text'], created)
        if self.kind == 'HINFO':
            return DNSHinfo(n, t, cls, ttl, rd['cpu'], rd['os'], created)
        return DNSNsec(n, t, cls, ttl, rd['next_name'], list(rd['rdtypes']), created)

    def __repr__(self) -> str:
        return f'{self.kind}({self.name} {self.rd})'


def mk_incoming(
    now: Any,
    answers: Sequence[DNSRecord] = (),
    questions: Sequence[DNSQuestion] = (),
    flags: int = const._FLAGS_QR_RESPONSE | const._FLAGS_AA,
    source: Optional[Tuple[str, int]] = ('10.0.0.9', 5353),
    id_: int = 0,
    num_authorities: int = 0,
    data: bytes = b'',
) -> DNSIncoming:
    """A DNSIncoming as the decoder would leave it, built directly (the codec has its own obligations)."""
    m = DNSIncoming.__new__(DNSIncoming)
    m.flags = flags
    m.offset = 0
    m.data = data
    m.view = data
    m._data_len = len(data)
    m._name_cache = {}
    m._questions = list(questions)
    m._answers = list(answers)
    m.id = id_
    m._num_questions = len(m._questions)
    m._num_answers = len(m._answers)
    m._num_authorities = num_authorities
    m._num_additionals = 0
    m.valid = True
    m._did_read_others = True
    m.now = now
    m.source = source
    m.scope_id = None
    m._has_qu_question = any(q.unique for q in m._questions)
    return m


# a small fixed vocabulary shared by several properties -----------------------------------------
TYPE1 = '_http._tcp.local.'
TYPE2 = '_ipp._tcp.local.'
INST1 = 'Alpha._http._tcp.local.'
INST2 = 'Beta._http._tcp.local.'
INST1_UP = 'ALPHA._http._tcp.local.'
HOST1 = 'alpha.local.'
HOST2 = 'beta.local.'

VOCAB: Dict[str, Spec] = {
    'P1': Spec('PTR', TYPE1, alias=INST1),
    'P1u': Spec('PTR', '_HTTP._tcp.local.', alias=INST1_UP),  # same identity as P1, other spelling
    'P1a': Spec('PTR', TYPE1, alias=INST1_UP),  # same identity as P1: owner spelled exactly, instance re-cased
    'P2': Spec('PTR', TYPE1, alias=INST2),
    'Q1': Spec('PTR', TYPE2, alias='Gamma._ipp._tcp.local.'),
    'A1': Spec('A', HOST1, address=b'\x0a\x00\x00\x01'),
    'A2': Spec('A', HOST1, address=b'\x0a\x00\x00\x02'),
    'A1u': Spec('A', 'ALPHA.local.', address=b'\x0a\x00\x00\x01'),
    'B1': Spec('A', HOST2, address=b'\x0a\x00\x00\x03'),
    'AAAA1': Spec('AAAA', HOST1, address=b'\xfe\x80' + b'\x00' * 13 + b'\x01'),
    'S1': Spec('SRV', INST1, port=80, server=HOST1),
    'S1b': Spec('SRV', INST1, port=81, server=HOST1),
    'S2': Spec('SRV', INST2, port=80, server=HOST2),
    'T1': Spec('TXT', INST1, text=b'\x03a=1'),
    'T1b': Spec('TXT', INST1, text=b'\x03a=2'),
    'H1': Spec('HINFO', HOST1, cpu='x', os='y'),
    'N1': Spec('NSEC', HOST1, next_name=HOST1, rdtypes=[1]),
}
