"""C16 - back-to-back duplicate datagrams change nothing (metamorphic).

Engine E1: on every path the same history is run twice through the real AsyncListener.datagram_received
(duplicate guard, dispatch), RecordManager, browser, query handler and outgoing queues - once with every
datagram delivered a second time `dgap` ms later (0..999, symbolic), once without - with the same random
draws, and the transmissions and callbacks of the two runs are compared.
"""
from __future__ import annotations

from typing import Any, Dict, List, Tuple

import zeroconf._listener as lst
from vkit import env
from vkit.build import VOCAB, mk_incoming
from vkit.responder import V4A, Q, Svc, mk_query
from vkit.runner import Obligation
from zeroconf import const
from zeroconf._services.browser import _ServiceBrowserBase
from zeroconf._updates import RecordUpdateListener

from .common import parse_datagram

PROPERTY = 'C16'
T1 = '_http._tcp.local.'
N1 = 'Alpha._http._tcp.local.'
PTR, A, SRV, TXT = const._TYPE_PTR, const._TYPE_A, const._TYPE_SRV, const._TYPE_TXT
TTL_MAX = 2**32 - 1


class Rec(RecordUpdateListener):
    def __init__(self) -> None:
        self.calls: List[Any] = []

    def async_update_records(self, zc: Any, now: Any, records: List[Any]) -> None:
        self.calls.append(('update', now, [(r.new.name, r.new.type, r.new.ttl, r.old is not None) for r in records]))

    def async_update_records_complete(self) -> None:
        self.calls.append(('complete',))


def run_once(ctx: Any, shape: Dict[str, Any], sym: Dict[str, Any], duplicate: bool, replay: Any) -> Dict[str, Any]:
    t0 = sym['t0']
    loop = env.begin(ctx, t0, replay)
    env.use_token_packets(True)
    zc = env.make_zc(loop)
    zc.registry.async_add(Svc('S1', T1, N1, 'alpha.local.', 80, [V4A], []).info())
    for key in shape.get('sighted', []):
        s = Svc('S1', T1, N1, 'alpha.local.', 80, [V4A], [])
        spec, ttl, uniq = {'PTR': s.ptr, 'SRV': s.srv, 'TXT': s.txt}[key]()
        zc.cache.async_add_records([spec.make(ttl, t0 - sym[f'age_{key}'], uniq)])
    callbacks: List[Any] = []
    browser = _ServiceBrowserBase(zc, ['_ipp._tcp.local.', T1], handlers=[lambda zeroconf, service_type, name, state_change: callbacks.append((loop.now_ms, service_type, name, state_change.name))])
    browser._async_start()
    loop.run_ready()
    browser.query_scheduler.stop()  # the browser's own query timers are C10's subject; here they only multiply interleavings
    listener = Rec()
    zc.record_manager.async_add_listener(listener, None)
    loop.run_ready()
    proto = zc.engine.protocols[0]
    if shape.get('loopback'):
        # the instance hears its own multicast one loop iteration after sending it (IP_MULTICAST_LOOP)
        from vkit.link import Link

        Link(loop, ctx, None, []).attach('10.0.0.1', zc)
    table: Dict[bytes, Any] = {}

    def factory(data: bytes, source: Any = None, scope_id: Any = None, now: Any = None) -> Any:
        return table[data](now)

    saved = lst.DNSIncoming
    lst.DNSIncoming = factory  # type: ignore[misc,assignment]
    try:
        for i, ev in enumerate(shape['events']):
            loop.advance_to(t0 + sym[f'off{i}'])
            data = f'datagram{i}'.encode() if not ev.get('same_as_previous') else f'datagram{i - 1}'.encode()
            if ev.get('same_as_previous'):
                pass  # identical bytes: identical content
            elif ev['kind'] == 'query':
                table[data] = lambda now, ev=ev, data=data: mk_query(now, [Q(n, t, qu) for n, t, qu in ev['q']], [], ('10.0.0.9', 5353), truncated=ev.get('tc', False),
                                                                  probe_authorities=1 if ev.get('probe') else 0, data=data)
            else:
                def build(now: Any, ev: Dict[str, Any] = ev, i: int = i, data: bytes = data) -> Any:
                    recs = [VOCAB[k].make(sym[f'ttl{i}_{j}'], now, flush) for j, (k, flush) in enumerate(parse_datagram(ev['records']))]
                    return mk_incoming(now, recs, data=data)

                table[data] = build
            proto.datagram_received(data, ('10.0.0.9', 5353))
            if duplicate:
                if not (shape.get('loopback') and sym[f'dgap{i}'] == 0):  # back to back: the copy is read before anything looped back
                    loop.advance_to(t0 + sym[f'off{i}'] + sym[f'dgap{i}'])
                proto.datagram_received(data, ('10.0.0.9', 5353))
        loop.advance_to(t0 + sym['end'])
    finally:
        lst.DNSIncoming = saved  # type: ignore[misc]
    sends = []
    for s in env.sent_log(zc):
        o = s.out
        sends.append((s.t, s.addr, s.port, o.is_query(), [(q.name, q.type, q.unicast) for q in o.questions],
                      sorted((r.name, r.type, r.ttl) for r, _ in o.answers), sorted((r.name, r.type) for r in o.additionals)))
    draws = list(env.CUR_RAND_LOG())
    errors = list(loop.callback_exceptions)
    env.end()
    return {'sends': sends, 'callbacks': callbacks, 'listener': listener.calls, 'draws': draws, 'errors': errors}


def make(shape: Dict[str, Any]) -> Any:
    def fn(ctx: Any) -> None:
        sym: Dict[str, Any] = {'t0': ctx.int('t0', 5000, 2**40)}
        prev: Any = 0
        for key in shape.get('sighted', []):
            sym[f'age_{key}'] = ctx.int(f'age_{key}', 0, 20000)  # stays within a quarter of the TTL for the whole run
        for i, ev in enumerate(shape['events']):
            # with loop-back of the instance's own multicast only true back-to-back copies are 'in immediate succession on the same
            # socket' (later ones may have the instance's own reply between them, which is another datagram on that socket)
            sym[f'dgap{i}'] = ctx.int(f'dgap{i}', 0, 0 if shape.get('loopback') else shape.get('dgap_max', 999))
            sym[f'off{i}'] = prev + ctx.int(f'gap{i}', 0 if i == 0 else shape.get('min_gap', 0), 1500)
            prev = sym[f'off{i}'] + sym[f'dgap{i}']
            if ev['kind'] == 'response':
                for j, _ in enumerate(parse_datagram(ev['records'])):
                    sym[f'ttl{i}_{j}'] = ctx.int(f'ttl{i}_{j}', 0, TTL_MAX)
        sym['end'] = prev + 4000
        ref = run_once(ctx, shape, sym, False, None)
        dup = run_once(ctx, shape, sym, True, ref['draws'])
        if ctx.twin:
            return
        ctx.check(not ref['errors'] and not dup['errors'], f'exception in a callback: {(ref["errors"] + dup["errors"])[:1]}')
        has_qu = any(ev['kind'] == 'query' and any(qu for _, _, qu in ev['q']) for ev in shape['events'])
        ref_m = [s for s in ref['sends'] if s[1] in ('224.0.0.251', 'ff02::fb')]
        dup_m = [s for s in dup['sends'] if s[1] in ('224.0.0.251', 'ff02::fb')]
        ctx.check(ref_m == dup_m, f'multicast / query transmissions differ: {len(ref_m)} without duplicates, {len(dup_m)} with')
        ref_u = [s for s in ref['sends'] if s not in ref_m]
        dup_u = [s for s in dup['sends'] if s not in dup_m]
        if has_qu:
            ctx.check(all(any(u[1:] == r[1:] for r in ref_u) for u in dup_u) and len(dup_u) <= 2 * len(ref_u),
                      'unicast replies of the duplicated run are not the original ones (each at most twice)')
            ctx.check(all(r in dup_u for r in ref_u), 'a unicast reply of the original run is missing or sent at another time when datagrams are duplicated')
        else:
            ctx.check(ref_u == dup_u, 'unicast transmissions differ')
        ctx.check(ref['callbacks'] == dup['callbacks'], f'browser callbacks differ: {ref["callbacks"]} vs {dup["callbacks"]}')
        ctx.check(ref['listener'] == dup['listener'], 'record update listener calls differ')

    return fn


def qy(*qs: Tuple[str, int, bool], **kw: Any) -> Dict[str, Any]:
    return dict({'kind': 'query', 'q': list(qs)}, **kw)


def rs(records: str) -> Dict[str, Any]:
    return {'kind': 'response', 'records': records}


QUICK = {
    'qm-ptr-query': {'events': [qy((T1, PTR, False))]},
    'qm-srv-query': {'events': [qy((N1, SRV, False))]},
    'qm-probe': {'events': [qy((T1, PTR, False), probe=True)]},
    'qu-query-recent': {'events': [qy((N1, SRV, True))], 'sighted': ['SRV']},
    'tc-query': {'events': [qy((T1, PTR, False), tc=True)]},
    'response-new': {'events': [rs('P1 S1+ A1+')]},
    'response-then-refresh': {'events': [rs('P1'), rs('P1')]},
    'tc-qu-query-recent': {'events': [qy((T1, PTR, True), tc=True)], 'sighted': ['PTR']},
    'repeat-after-1s': {'events': [qy((N1, SRV, False)), qy((N1, SRV, False), same_as_previous=True)], 'min_gap': 1001},
    'response-repeat-after-1s': {'events': [rs('P1'), dict(rs('P1'), same_as_previous=True)], 'min_gap': 1001},
    'qu-query-then-response': {'events': [qy((N1, SRV, True)), rs('P2 S2+')], 'sighted': ['SRV']},
    'query-then-response': {'events': [qy((T1, PTR, False)), rs('P2')]},
    'qu-query-recent-then-qm-query': {'events': [qy((N1, SRV, True)), qy((T1, PTR, False))], 'sighted': ['SRV']},
    'tc-qu-query-recent-then-qm-query': {'events': [qy((T1, PTR, True), tc=True), qy((N1, TXT, False))], 'sighted': ['PTR'], 'dgap_max': 399},  # (a copy arriving after the 400..500 ms hold is a new truncated query of its own)
    'qu-query-not-recent': {'events': [qy((N1, SRV, True))]},
    'loopback-qu-query-not-recent': {'events': [qy((N1, SRV, True))], 'loopback': True},
    'loopback-qm-srv-query': {'events': [qy((N1, SRV, False))], 'loopback': True},
    'loopback-qm-ptr-query-then-response': {'events': [qy((T1, PTR, False)), rs('P2')], 'loopback': True},
}
THOROUGH = {
    'response-then-goodbye-or-refresh': {'events': [rs('P1 S1+'), rs('P1 S1b+')]},
    'two-queries': {'events': [qy((T1, PTR, False)), qy((N1, TXT, False))]},
    'response-flush-pair': {'events': [rs('A1+'), rs('A2+')]},
    'response-three': {'events': [rs('P1 P2'), rs('P1'), rs('P2')]},
    'tc-then-final': {'events': [qy((T1, PTR, False), tc=True), qy((T1, PTR, False))]},
    'qu-probe-recent': {'events': [qy((T1, PTR, True), probe=True)], 'sighted': ['PTR']},
    'response-then-query': {'events': [rs('P1 S1+ T1+'), qy((T1, PTR, False))]},
}


def obligations(tier: str) -> List[Obligation]:
    shapes = dict(QUICK)
    if tier == 'thorough':
        shapes.update(THOROUGH)
    return [Obligation(f'dup[{k}]', make(v), 'dup', {'name': k, **{a: str(b) for a, b in v.items()}}, timeout=200 if tier == 'quick' else 900) for k, v in shapes.items()]


META = {
    'explanation': 'Metamorphic check on one symbolic path: the same history (queries of every kind, responses with new / refreshed / goodbye / flush '
    'records) is delivered to the real AsyncListener.datagram_received of two fresh socket-less instances (registered service, browser, record listener), once '
    'with every datagram repeated dgap ms later (0..999) and once without, with identical random draws; arrival offsets, dgap, every TTL and sighting ages are z3 '
    'integers. Multicast transmissions, browser callbacks and record-listener calls must be identical; unicast replies identical except that a QU query may be '
    'answered twice.',
    'functions': [
        'zeroconf._listener.AsyncListener.datagram_received/_process_datagram_at_time/handle_query_or_defer/_respond_query', 'RecordManager.async_updates_from_response',
        '_ServiceBrowserBase.async_update_records/async_update_records_complete', 'QueryHandler.handle_assembled_query/async_response', 'MulticastOutgoingQueue.*', 'Zeroconf.async_send',
    ],
    'bounds': {'t0': [5000, 2**40], 'dgap ms': '0..999 (0 in the loopback-* shapes)', 'gap between datagrams ms': [0, 1500], 'ttl': [0, TTL_MAX], 'datagrams': '<= 3'},
    'outside': ['copies arriving after the instance\'s own looped-back reply (loopback-* shapes model the loop-back and deliver the copy back to back: a later copy is no longer "in immediate succession on the same socket")',
                'wire decoding: datagrams are opaque byte tokens mapped to prebuilt DNSIncoming objects (same content, fresh object per delivery)'],
    'stubs': env.STUBS + ['zeroconf._listener.DNSIncoming replaced by a table from datagram bytes to prebuilt messages'],
    'float_sites': ['const._DNS_PTR_MIN_TTL = 1125.0 (exact)'],
    'assumptions': ['CrossHair 0.0.110 / z3 5.1.0'],
}
