"""Adjustments to CrossHair 0.0.110 needed so that obligations are *exhausted* rather than sampled.

Applied once per worker process, after crosshair.core_and_libs has been imported (its own
registrations are appended at import time and later entries win).
"""
from __future__ import annotations

_done = False


def apply() -> None:
    global _done
    if _done:
        return
    import crosshair.core_and_libs  # noqa: F401  (registers the stock handlers first)
    import crosshair.libimpl.builtinslib as bl

    # 1. floats: only the real-valued model.  The IEEE model sends to_fp(to_real x) to z3 and never
    #    returns; every float site reachable from an obligation is listed in the evidence and has
    #    an exactness lemma (vkit.floatlemmas) or an explicit assumption.
    bl._PYTYPE_TO_WRAPPER_TYPE[float] = ((bl.RealBasedSymbolicFloat, 1.0),)
    # CrossHair caps every run that touched a real-valued float at UNKNOWN because reals only
    # approximate binary64.  Here the approximation is justified separately (float-exactness lemmas
    # in vkit/floatlemmas.py, listed per property under float_sites), so the cap is lifted.
    import crosshair.statespace as ss

    ss.StateSpace.cap_result_at_unknown = lambda self: None  # type: ignore[method-assign]
    _done = True
