"""C15 - a running instance survives any datagram stream.

Engine E1: the real AsyncListener.datagram_received (size guard, duplicate guard, decoder, dispatch to the
record manager / query handler) of an instance with a registered service, a browser and a lookup in
progress receives a canary query, then a datagram whose payload octets are solver variables (the templates
of C02, plus valid questions followed by a symbolic answer section) from a symbolic source port at a
symbolic instant, then the canary query and a canary announcement again.  Lemmas: the oversize guard for
every length, and echo safety of decoded labels (confirmed through the real listener on concrete bytes).
"""
from __future__ import annotations

from typing import Any, Dict, List, Optional

import zeroconf._dns as dns
from vkit import env, wire
from vkit.build import IN
from vkit.pkt import Blob, SymPacket
from vkit.responder import V4A, Svc
from vkit.runner import Obligation
from zeroconf import const
from zeroconf._dns import DNSPointer, DNSQuestion, DNSService
from zeroconf._exceptions import NamePartTooLongException
from zeroconf._protocol.incoming import DNSIncoming, IncomingDecodeError
from zeroconf._protocol.outgoing import DNSOutgoing
from zeroconf._services.browser import _ServiceBrowserBase
from zeroconf._services.info import AsyncServiceInfo

PROPERTY = 'C15'
T1 = '_http._tcp.local.'
N1 = 'Alpha._http._tcp.local.'


def canary_query() -> bytes:
    out = DNSOutgoing(const._FLAGS_QR_QUERY)
    out.add_question(DNSQuestion(N1, const._TYPE_SRV, IN))
    return out.packets()[0]


def canary_announcement() -> bytes:
    out = DNSOutgoing(const._FLAGS_QR_RESPONSE | const._FLAGS_AA)
    out.add_answer_at_time(DNSPointer(T1, const._TYPE_PTR, IN, 4500, 'Canary._http._tcp.local.', 0.0), 0)
    out.add_answer_at_time(DNSService('Canary._http._tcp.local.', const._TYPE_SRV, IN | const._CLASS_UNIQUE, 120, 0, 0, 81, 'canary.local.', 0.0), 0)
    return out.packets()[0]


def question_bytes() -> bytes:
    """Wire form of the question section `_http._tcp.local. PTR IN` (answerable by the instance)."""
    out = DNSOutgoing(const._FLAGS_QR_QUERY)
    out.add_question(DNSQuestion(T1, const._TYPE_PTR, IN))
    return out.packets()[0][12:]


def scoped_aaaa_response() -> bytes:
    """A response holding the SRV record of the instance the pending lookup asks for and a link-local AAAA record of its host
    (the AAAA record is last: its RDLENGTH is at -18, its 16 address octets at the end)."""
    from zeroconf._dns import DNSAddress

    out = DNSOutgoing(const._FLAGS_QR_RESPONSE | const._FLAGS_AA)
    out.add_answer_at_time(DNSService('Nobody._http._tcp.local.', const._TYPE_SRV, IN | const._CLASS_UNIQUE, 120, 0, 0, 8080, 'nobody.local.', 0.0), 0)
    out.add_answer_at_time(DNSAddress('nobody.local.', const._TYPE_AAAA, IN | const._CLASS_UNIQUE, 120, b'\xfe\x80' + b'\x00' * 13 + b'\x01', None, 0.0), 0)
    return out.packets()[0]


# real wire bytes, built once at import time with the unmodified encoder (no stub is active yet)
CQ, CA, QB = canary_query(), canary_announcement(), question_bytes()
SA = scoped_aaaa_response()


def make(shape: Dict[str, Any]) -> Any:
    P = shape['payload']
    counts = shape['counts']
    flags = shape.get('flags', 0)
    lead = shape.get('lead_question', False)

    def fn(ctx: Any) -> None:
        cq, ca, qb = CQ, CA, QB
        timing = shape.get('timing', 'fixed')
        t0 = ctx.int('t0', 5000, 2**40) if timing == 'symbolic' else 1_000_000
        loop = env.begin(ctx, t0, fixed_rand=timing != 'symbolic')
        env.use_token_packets(True)
        zc = env.make_zc(loop)
        zc.registry.async_add(Svc('S1', T1, N1, 'alpha.local.', 80, [V4A], []).info())
        callbacks: List[Any] = []
        browser = _ServiceBrowserBase(zc, [T1], handlers=[lambda zeroconf, service_type, name, state_change: callbacks.append((name, state_change.name))])
        browser._async_start()
        lookup = loop.create_task(AsyncServiceInfo(T1, 'Nobody._http._tcp.local.').async_request(zc, 3000))
        loop.run_ready()
        browser.query_scheduler.stop()
        proto = zc.engine.protocols[0]
        dns.hash = lambda t: 0  # type: ignore[attr-defined]
        try:
            proto.datagram_received(cq, ('10.0.0.7', 5353))
            sent_before = len(env.sent_log(zc))
            ctx.check(sent_before >= 1, 'canary query not answered before the test datagram')
            # ---- the datagram under test
            loop.advance_by(ctx.int('gap1', 0, shape.get('gap_max', 1200)) if timing == 'symbolic' else 10)
            hdr = [wire.Tok(ctx.int('id', 0, 65535), 2), wire.Tok(flags, 2)] + [wire.Tok(c, 2) for c in counts]
            body: List[bytes] = [qb] if lead else []
            body += [wire.sym_octet(ctx.int(f'octet{i}', 0, 255)) for i in range(P)]
            port = ctx.int('port', 0, 65535)
            src: Any = ('10.0.0.9', port)
            if shape.get('v6_scope') is not None:
                src = ('fe80::9', port, 0, shape['v6_scope'])  # an IPv6 source: (address, port, flow, scope id of the receiving interface)
            if shape.get('scoped_aaaa'):
                # the RDLENGTH of the trailing AAAA record is a solver variable 0..20; the datagram ends after `tail` of the 16
                # address octets (the decoder reads 16 octets whatever RDLENGTH says, so a truncated copy yields a short address)
                sa = SA
                test_pkt = SymPacket([sa[:-18], wire.Tok(0, 1), wire.sym_octet(ctx.int('aaaa_rdlength', 0, 20)), sa[len(sa) - 16: len(sa) - 16 + shape['scoped_aaaa_tail']]])
            elif shape.get('chain'):
                from props.c02 import chain_packet

                direction, cells, broken = shape['chain']
                test_pkt = chain_packet(ctx, cells, broken, direction, 'chain_')[0]  # a deep compression-pointer chain (query: forward, response: backward)
            else:
                test_pkt = SymPacket(hdr + body)
            if shape.get('cancel_lookup'):
                # the application gives up on its lookup in the very loop iteration in which the answer arrives: the task is cancelled
                # but has not run yet, so its listener and its (now cancelled) wake-up future are still registered
                lookup.cancel()
            try:
                proto.datagram_received(test_pkt, src)  # type: ignore[arg-type]
                loop.run_ready()
                second = shape.get('second')
                if second is not None:
                    # a stream: a second adversarial datagram from the same sender shortly afterwards (it meets whatever the
                    # first one left behind: duplicate-guard memory, a deferred truncated query and its timer)
                    loop.advance_by(second.get('gap', 50))
                    hdr2 = [wire.Tok(ctx.int('id2', 0, 65535), 2), wire.Tok(second.get('flags', 0), 2)] + [wire.Tok(c, 2) for c in second['counts']]
                    body2: List[bytes] = [qb] if second.get('lead_question') else []
                    body2 += [wire.sym_octet(ctx.int(f'second_octet{i}', 0, 255)) for i in range(second['payload'])]
                    proto.datagram_received(SymPacket(hdr2 + body2), src)  # type: ignore[arg-type]
                    loop.run_ready()
            except Exception as e:
                ctx.check(False, f'{type(e).__name__} escaped datagram_received into the event loop')
                return
        finally:
            dns.hash = env._native_hash  # type: ignore[attr-defined]
        if ctx.twin:
            return
        # ---- afterwards: the instance still works
        loop.advance_by(ctx.int('gap2', 0, shape.get('gap_max', 1200)) if timing == 'symbolic' else shape.get('gap2', 700))
        n_before = len(env.sent_log(zc))
        try:
            proto.datagram_received(cq, ('10.0.0.9', 5353))  # same sender as the test datagram (joins whatever it left deferred)
            proto.datagram_received(ca, ('10.0.0.8', 5353))
            loop.advance_by(1500)
        except Exception as e:
            ctx.check(False, f'{type(e).__name__} escaped while handling valid traffic after the test datagram')
            return
        ctx.check(not loop.callback_exceptions, f'exception in a timer / callback: {loop.callback_exceptions[:1]!r}')
        answered = [s for s in env.sent_log(zc)[n_before:] if not s.out.is_query() and any(r.name == N1 and r.type == const._TYPE_SRV for r in s.records())]
        ctx.check(len(answered) >= 1, 'a well-formed query sent after the datagram is no longer answered')
        ctx.check(('Canary._http._tcp.local.', 'Added') in callbacks, 'an announcement sent after the datagram did not reach the browser')

    return fn


def make_oversize(shape: Dict[str, Any]) -> Any:
    def fn(ctx: Any) -> None:
        t0 = ctx.int('t0', 5000, 2**40)
        loop = env.begin(ctx, t0)
        zc = env.make_zc(loop)
        proto = zc.engine.protocols[0]
        n = ctx.int('length', 0, 70000)
        built = [0]
        import zeroconf._listener as lst

        saved = lst.DNSIncoming

        def counting(*a: Any, **kw: Any) -> Any:
            built[0] += 1
            m = DNSIncoming.__new__(DNSIncoming)
            m.valid = False
            m.data = a[0]
            m._has_qu_question = False
            return m

        lst.DNSIncoming = counting  # type: ignore[misc,assignment]
        try:
            proto.datagram_received(Blob(n), ('10.0.0.9', 5353))
        finally:
            lst.DNSIncoming = saved  # type: ignore[misc]
        if ctx.twin:
            return
        if n > 8966:
            ctx.check(built[0] == 0 and proto.data is None, 'a datagram over 8966 octets was not ignored')
        else:
            ctx.check(built[0] == 1, 'a datagram of at most 8966 octets was not handed to the decoder')

    return fn


class ReplacedLabel(str):
    """Text of a label decoded with errors='replace': its UTF-8 re-encoding has m octets, n <= m <= 3n."""

    m: Any = 0

    def __new__(cls, m: Any) -> 'ReplacedLabel':
        o = str.__new__(cls, '<label>')
        o.m = m
        return o

    def encode(self, *a: Any) -> Blob:  # type: ignore[override]
        return Blob(self.m)


class ReplSlice:
    def __init__(self, n: Any, m: Any) -> None:
        self.n, self.m = n, m

    def decode(self, encoding: str = 'utf-8', errors: str = 'strict') -> Any:
        return ReplacedLabel(self.m if errors == 'replace' else self.n)


class ReplPacket(SymPacket):
    def __init__(self, elements: List[bytes], m: Any) -> None:
        super().__init__(elements)
        self.m = m

    def _slice(self, a: Any, b: Any) -> Any:
        return ReplSlice(b - a, self.m)


def make_echo(shape: Dict[str, Any]) -> Any:
    """Kernel lemma on the real guards; a counterexample is confirmed (or discarded) on concrete bytes through the real listener."""

    def fn(ctx: Any) -> None:
        t0 = ctx.int('t0', 5000, 2**40)
        loop = env.begin(ctx, t0)
        n = ctx.int('label_octets', 1, 63)
        m = ctx.int('reencoded_octets', 1, 189)
        ctx.assume(n <= m)
        ctx.assume(m <= 3 * n)
        if ctx.mode == 'replay':
            # property-level confirmation: a legacy-unicast query whose second question has an n-octet label that
            # re-encodes to m octets (invalid UTF-8 octets become U+FFFD = 3 octets), through the real listener
            k = (m - n) // 2  # k invalid octets add 2 each
            if n + 2 * k != m or k > n:
                return
            label = b'\xff' * k + b'a' * (n - k)
            q1 = QB
            data = b'\x00\x07\x00\x00\x00\x02\x00\x00\x00\x00\x00\x00' + q1 + bytes([n]) + label + b'\x05local\x00' + b'\x00\x0c\x00\x01'
            env.use_token_packets(False)
            zc = env.make_zc(loop)
            zc.registry.async_add(Svc('S1', T1, N1, 'alpha.local.', 80, [V4A], []).info())
            proto = zc.engine.protocols[0]
            try:
                proto.datagram_received(data, ('10.0.0.9', 40000))
            except Exception as e:
                ctx.check(False, f'{type(e).__name__} escaped datagram_received: legacy-unicast echo of a question whose {n}-octet label holds {k} invalid UTF-8 octets (re-encodes to {m} octets)')
            return
        wire.install()
        try:
            pkt = ReplPacket([wire.Tok(n, 1), Blob(n), wire.Tok(0, 1)], m)
            msg = DNSIncoming.__new__(DNSIncoming)
            msg.data = msg.view = pkt  # type: ignore[assignment]
            msg._data_len = len(pkt)
            msg._name_cache = {}
            msg.source = None
            labels: List[Any] = []
            try:
                msg._decode_labels_at_offset(0, labels, set())
            except IncomingDecodeError:
                if not ctx.twin:
                    return  # the decoder rejects the label: nothing is echoed
            if ctx.twin:
                return
            out = DNSOutgoing(const._FLAGS_QR_RESPONSE, False, 7)
            try:
                out._write_utf(labels[0])
            except NamePartTooLongException:
                ctx.check(False, 'a label the decoder accepts cannot be written back (echo of a decoded question raises NamePartTooLongException)')
        finally:
            wire.uninstall()

    return fn


def obligations(tier: str) -> List[Obligation]:
    obs = []
    P = 3 if tier == 'quick' else 5
    templates = [
        ('query-question', [1, 0, 0, 0], 0, False, P),
        ('response-answer', [0, 1, 0, 0], 0x8400, False, P),
        ('query-known-answer', [1, 1, 0, 0], 0, True, P - 2),  # (4 free octets after a question do not finish in 25 min)
        ('probe-authority', [1, 0, 1, 0], 0, True, P - 1),
        ('response-garbage-after-question', [1, 1, 0, 0], 0x8400, True, P - 1),
        ('truncated-query', [1, 1, 0, 0], 0x0200, True, P - 2),
    ]
    for name, counts, flags, lead, p in templates:
        shape = {'payload': p, 'counts': counts, 'flags': flags, 'lead_question': lead, 'timing': 'fixed'}
        obs.append(Obligation(f'survive[{name};payload={p}]', make(shape), 'survive', shape, timeout=280 if tier == 'quick' else 1500))
        if name == 'truncated-query':
            shape3 = dict(shape, gap2=200)  # the next valid query of the same sender arrives while the truncated one is still held
            obs.append(Obligation(f'survive[{name};payload={p};follow-up-within-hold]', make(shape3), 'survive', shape3, timeout=280 if tier == 'quick' else 1500))
        if name in ('query-question', 'response-answer'):
            shape2 = {'payload': 1, 'counts': counts, 'flags': flags, 'lead_question': lead, 'timing': 'symbolic', 'gap_max': 1200}
            obs.append(Obligation(f'survive[{name};payload=1;symbolic-timing]', make(shape2), 'survive-timing', shape2, timeout=280 if tier == 'quick' else 1500))
    TCQ = {'payload': 1, 'counts': [1, 1, 0, 0], 'flags': 0x0200, 'lead_question': True}
    streams = [('truncated-query-then-query', TCQ, {'payload': 1, 'counts': [1, 0, 0, 0], 'flags': 0, 'lead_question': False, 'gap': 50}),
               ('truncated-query-then-truncated-query', TCQ, dict(TCQ, gap=450))]
    if tier != 'quick':
        streams += [('truncated-query-then-known-answers', TCQ, {'payload': 1, 'counts': [1, 1, 0, 0], 'flags': 0, 'lead_question': True, 'gap': 50}),
                    ('response-then-response', {'payload': 1, 'counts': [0, 1, 0, 0], 'flags': 0x8400, 'lead_question': False}, {'payload': 2, 'counts': [0, 1, 0, 0], 'flags': 0x8400, 'lead_question': False, 'gap': 10}),
                    ('query-then-response', {'payload': 1, 'counts': [1, 0, 0, 0], 'flags': 0, 'lead_question': False}, {'payload': 2, 'counts': [0, 1, 0, 0], 'flags': 0x8400, 'lead_question': False, 'gap': 10})]
    for name, first, second in streams:
        shape = dict(first, timing='fixed', second=second)
        obs.append(Obligation(f'survive[stream {name}]', make(shape), 'survive-stream', shape, timeout=280 if tier == 'quick' else 1500))
    chains = [('forward', 1100, None), ('backward', 1100, None), ('forward', 8, 4)] + ([] if tier == 'quick' else [('forward', 4470, None), ('backward', 4460, None), ('backward', 8, 4), ('forward', 130, None), ('backward', 130, None)])
    for direction, cells, broken in chains:
        shape = {'payload': 0, 'counts': [0, 0, 0, 0], 'flags': 0, 'lead_question': False, 'timing': 'fixed', 'chain': [direction, cells, broken]}
        obs.append(Obligation(f'survive[pointer-chain {direction};cells={cells};broken={broken if broken is not None else "-"}]', make(shape), 'survive-chain', shape, timeout=280 if tier == 'quick' else 1500))
    for scope, tail in ((3, 16), (3, 15), (3, 0), (0, 15)) if tier == 'quick' else [(sc, tl) for sc in (0, 3) for tl in (0, 1, 4, 15, 16)]:
        shape = {'payload': 0, 'counts': [0, 0, 0, 0], 'flags': 0, 'lead_question': False, 'timing': 'fixed', 'scoped_aaaa': True, 'scoped_aaaa_tail': tail, 'v6_scope': scope}
        obs.append(Obligation(f'survive[scoped-aaaa-for-pending-lookup;scope={scope};address-octets={tail}]', make(shape), 'survive-aaaa', shape, timeout=280 if tier == 'quick' else 1500))
    shape = {'payload': 0, 'counts': [0, 0, 0, 0], 'flags': 0, 'lead_question': False, 'timing': 'fixed', 'scoped_aaaa': True, 'scoped_aaaa_tail': 16, 'v6_scope': 3, 'cancel_lookup': True}
    obs.append(Obligation('survive[answer-for-a-cancelled-lookup]', make(shape), 'survive-aaaa', shape, timeout=280 if tier == 'quick' else 1500))
    for name, counts, flags, lead, p in templates[:2]:
        shape = {'payload': min(p, 3), 'counts': counts, 'flags': flags, 'lead_question': lead, 'timing': 'fixed', 'v6_scope': 3}
        obs.append(Obligation(f'survive[{name};payload={min(p, 3)};v6-source]', make(shape), 'survive', shape, timeout=280 if tier == 'quick' else 1500))
    obs.append(Obligation('oversize-guard', make_oversize({}), 'oversize', {}, timeout=120))
    obs.append(Obligation('echo-safety', make_echo({}), 'echo', {}, timeout=120))
    return obs


META = {
    'explanation': 'survive[*]: an instance (registered service, browser, pending lookup) first answers a canary query, then its real AsyncListener.datagram_received gets a datagram '
    'whose payload octets are z3 integers (query / response / truncated-query headers; in four templates a valid answerable question precedes the symbolic octets, so the query handler, '
    'the known-answer parser and the TC deferral run on them) from a symbolic source port after a symbolic gap; after another symbolic gap the canary query and a canary announcement are '
    'delivered as real bytes. Checked: nothing escapes, the canary is answered again, the announcement reaches the browser. oversize-guard: datagram length 0..70000 symbolic. '
    'echo-safety: the real _decode_labels_at_offset and _write_utf guards on a label of n octets that re-encodes to m octets (n <= m <= 3n, the contract of errors="replace"); a '
    'counterexample is confirmed on concrete bytes through the real listener before it is reported.',
    'functions': [
        'zeroconf._listener.AsyncListener.datagram_received/_process_datagram_at_time/handle_query_or_defer/_respond_query', 'DNSIncoming (whole decoder)',
        'RecordManager.async_updates_from_response', 'QueryHandler.handle_assembled_query/async_response', 'answers.construct_outgoing_unicast_answers', 'DNSOutgoing._write_utf',
        '_ServiceBrowserBase.async_update_records', 'ServiceInfo.async_update_records',
    ],
    'bounds': {'symbolic payload octets': '1..3 (quick) / 3..5 (thorough)', 'port': [0, 65535], 'timing': 'content obligations: fixed instants and jitter draws at their lower bound; survive[*;symbolic-timing]: t0, gaps 0..1200 ms and jitter symbolic with one symbolic payload octet', 'datagram length (guard lemma)': [0, 70000], 'label octets (echo lemma)': [1, 63]},
    'outside': ['streams of more than two adversarial datagrams (survive[stream *]: two datagrams with 1..2 free octets each from one sender, 10..450 ms apart)', 'datagrams with more than 12 + question + 6 free octets other than the enumerated compression-pointer chains (survive[pointer-chain *]: 3..4470 pointer cells, id / label octet / TTL / port and in the broken variants the low octet of one pointer symbolic)', 'real sockets'],
    'stubs': env.STUBS + ['test datagram presented as vkit.pkt.SymPacket', '`hash` in zeroconf._dns returns 0 while the symbolic datagram is processed',
                          'echo lemma: decode(errors="replace") of an opaque label returns a text whose re-encoded length m is a solver variable with n <= m <= 3n'],
    'float_sites': ['const._DNS_PTR_MIN_TTL = 1125.0 (exact)'],
    'assumptions': ['CrossHair 0.0.110 / z3 5.1.0'],
}
