"""C03 - the responder answers exactly what is registered, minus what the querier knows.

Engine E1 on the real ServiceRegistry / ServiceInfo / QueryHandler.async_response.  Registries are
reached through concrete register / update / unregister scripts; every service's host_ttl and
other_ttl and every known-answer TTL is a solver variable.  Oracle: vkit.responder.reference_answers.
"""
from __future__ import annotations

from typing import Any, Dict, List, Tuple

from vkit import env
from vkit.responder import ENUM, V4A, V4B, V6A, V6B, Q, Svc, mk_query, reference_answers
from vkit.runner import Obligation
from zeroconf import const
from zeroconf._handlers.answers import construct_outgoing_multicast_answers

PROPERTY = 'C03'
T1, T2 = '_http._tcp.local.', '_ipp._tcp.local.'
PTR, A, AAAA, SRV, TXT, ANY, NSEC = (const._TYPE_PTR, const._TYPE_A, const._TYPE_AAAA, const._TYPE_SRV, const._TYPE_TXT,
                                      const._TYPE_ANY, const._TYPE_NSEC)


def catalogue(ctx: Any) -> Dict[str, Svc]:
    def ttl(n: str) -> Any:
        return ctx.int(n, 1, 2**31 - 1)

    cat = {
        'S1': Svc('S1', T1, 'Alpha._http._tcp.local.', 'alpha.local.', 80, [V4A], []),
        'S1b': Svc('S1b', T1, 'Alpha._http._tcp.local.', 'alpha.local.', 81, [V4B], [], text=b'\x03a=2'),
        'S1c': Svc('S1c', T1, 'Alpha._http._tcp.local.', 'alpha2.local.', 80, [V4A], [V6B]),
        'S1p': Svc('S1p', T1, 'Alpha._http._tcp.local.', 'alpha.local.', 8081, [V4A], []),
        'S2': Svc('S2', T1, 'Beta._http._tcp.local.', 'alpha.local.', 8080, [], [V6A]),
        'S3': Svc('S3', T2, 'Gamma._ipp._tcp.local.', 'gamma.local.', 631, [V4B], [V6B]),
        'S4': Svc('S4', '_printer._sub._ipp._tcp.local.', 'Delta._ipp._tcp.local.', 'delta.local.', 631, [], [V6A]),
        'S5': Svc('S5', '_HTTP._tcp.local.', 'Epsilon._HTTP._tcp.local.', 'EPSILON.local.', 80, [V4A, V4B], [V6A]),
        'S6': Svc('S6', T2, 'Zeta Printer._ipp._tcp.local.', None, 631, [V4A], []),  # no server given: the instance name is the host name
    }
    return cat, ttl  # type: ignore[return-value]


def make(shape: Dict[str, Any]) -> Any:
    script: List[Tuple[str, str]] = shape['script']
    questions: List[Q] = [Q(n, t) for n, t in shape['questions']]
    known_keys: List[Tuple[str, str]] = shape.get('known', [])  # (service key, record kind)

    def fn(ctx: Any) -> None:
        loop = env.begin(ctx, 1_000_000, fixed_rand=True)
        env.use_token_packets(True)
        zc = env.make_zc(loop)
        cat, ttl = catalogue(ctx)  # type: ignore[misc]
        live: Dict[str, Svc] = {}  # lower-cased instance name -> description (the reference registry)
        infos: Dict[str, Any] = {}
        used = []
        for op, key in script:
            s = cat[key]
            if key not in used:
                used.append(key)
                s.host_ttl, s.other_ttl = ttl(f'host_ttl_{key}'), ttl(f'other_ttl_{key}')
            if op == 'reg':
                infos[s.name.lower()] = s.info()
                zc.registry.async_add(infos[s.name.lower()])
                live[s.name.lower()] = s
            elif op == 'upd':
                infos[s.name.lower()] = s.info()
                zc.registry.async_update(infos[s.name.lower()])
                live[s.name.lower()] = s
            elif op == 'touch':
                # answer a few queries first, so that whatever the service description memoises is filled
                for qq in (Q(s.type, PTR), Q(s.name, SRV), Q(s.name, TXT), Q(s.server, A)):
                    zc.query_handler.async_response([mk_query(loop.now_ms, [qq], [])], False)
            elif op == 'inplace':
                # the application changes the registered object itself and re-registers it
                info = infos[s.name.lower()]
                info.host_ttl, info.other_ttl, info.port = s.host_ttl, s.other_ttl, s.port
                zc.registry.async_update(info)
                live[s.name.lower()] = s
            elif op == 'inplace-readd':
                info = infos[s.name.lower()]
                zc.registry.async_remove(info)
                info.host_ttl, info.other_ttl, info.port = s.host_ttl, s.other_ttl, s.port
                zc.registry.async_add(info)
                live[s.name.lower()] = s
            else:
                zc.registry.async_remove(infos.pop(s.name.lower()))
                live.pop(s.name.lower())
        services = list(live.values())
        known = []
        known_recs = []
        for i, (key, kind) in enumerate(known_keys):
            s = cat[key]
            if kind == 'ENUM':
                from vkit.build import Spec

                spec, uniq = Spec('PTR', ENUM, alias=s.type), False
            else:
                spec, _, uniq = {'PTR': s.ptr, 'SRV': s.srv, 'TXT': s.txt, 'A': lambda: s.addrs(A)[0], 'AAAA': lambda: s.addrs(AAAA)[0]}[kind]()
            kttl = ctx.int(f'known_ttl{i}', 0, 2**32 - 1)
            known.append((spec, kttl))
            known_recs.append(spec.make(kttl, loop.now_ms, uniq))
        msg = mk_query(loop.now_ms, questions, known_recs)
        qa = zc.query_handler.async_response([msg], False)
        got: Dict[Any, Any] = {}
        if qa is not None:
            for d in (qa.ucast, qa.mcast_now, qa.mcast_aggregate, qa.mcast_aggregate_last_second):
                got.update(d)
        if ctx.twin:
            return
        expected: Dict[Tuple, Any] = {}
        for q in questions:
            for spec, ettl, uniq, adds in reference_answers(services, q, known):
                if spec.ident in expected:  # the same record answering two questions
                    expected[spec.ident][3].extend(a for a in adds if a[0].ident not in [x[0].ident for x in expected[spec.ident][3]])
                else:
                    expected[spec.ident] = (spec, ettl, uniq, list(adds))
        specs = [e[0] for e in expected.values()] + [a[0] for e in expected.values() for a in e[3]]

        def ident(rec: Any) -> Any:
            for sp in specs:
                if sp.make(0, 1) == rec:
                    return sp.ident
            return ('UNEXPECTED', rec.name, rec.type, getattr(rec, 'alias', getattr(rec, 'address', None)))

        got_idents = sorted(ident(r) for r in got)
        ctx.check(got_idents == sorted(expected), f'answers {[g[:3] + g[4:5] for g in got_idents]} but registered services answer exactly {[e[:3] + e[4:5] for e in sorted(expected)]}')
        for rec, adds in got.items():
            e = expected.get(ident(rec))
            if e is None:
                continue
            ctx.check(rec.ttl == e[1], f'answer {ident(rec)[:3]} does not carry the configured TTL')
            ctx.check(rec.unique == e[2], f'answer {ident(rec)[:3]} has the wrong cache-flush marking')
            want_adds = {a[0].ident: a for a in e[3]}
            got_adds = sorted(ident(a) for a in adds)
            ctx.check(got_adds == sorted(want_adds), f'additionals of {ident(rec)[:3]} are {[g[:3] for g in got_adds]}, expected {[w[:3] for w in sorted(want_adds)]}')
            for a in adds:
                w = want_adds.get(ident(a))
                if w is not None:
                    ctx.check(a.ttl == w[1], f'additional {ident(a)[:3]} does not carry the configured TTL')
        # ---- the same query through the real listener: its "is anything registered" gate, dispatch, queues and transmission
        import zeroconf._listener as lst

        msg2 = mk_query(loop.now_ms, questions, known_recs, data=b'again')
        saved_inc = lst.DNSIncoming
        lst.DNSIncoming = lambda data, source=None, scope_id=None, now=None: msg2  # type: ignore[misc,assignment]
        try:
            zc.engine.protocols[0].datagram_received(b'again', ('10.0.0.9', 5353))
        finally:
            lst.DNSIncoming = saved_inc  # type: ignore[misc]
        loop.advance_by(2000)
        ctx.check(not loop.callback_exceptions, f'exception in a timer callback: {loop.callback_exceptions[:1]}')
        sent_idents = sorted({ident(r) for s in env.sent_log(zc) for r, _ in s.out.answers})
        ctx.check(sent_idents == sorted(expected), f'the listener transmitted answers {[g[:3] for g in sent_idents]} for a query whose answers are {[e[:3] for e in sorted(expected)]}')
        # ---- the same query once more after replies have been built and sent: nothing an earlier reply did may change the next one
        qa3 = zc.query_handler.async_response([mk_query(loop.now_ms, questions, known_recs, data=b'third')], False)
        got3: Dict[Any, Any] = {}
        if qa3 is not None:
            for d in (qa3.ucast, qa3.mcast_now, qa3.mcast_aggregate, qa3.mcast_aggregate_last_second):
                got3.update(d)
        ctx.check(sorted(ident(r) for r in got3) == sorted(expected), 'asked again after a reply was sent, the answers differ')
        for rec, adds in got3.items():
            e = expected.get(ident(rec))
            if e is not None:
                ctx.check(sorted(ident(a) for a in adds) == sorted(a[0].ident for a in e[3]), f'asked again after a reply was sent, the additionals of {ident(rec)[:3]} differ')
        if got:
            out = construct_outgoing_multicast_answers(got)
            ans = [r for r, _ in out.answers]
            ctx.check(len(ans) == len(got), 'an answer was dropped or repeated when the reply was built')
            for add in out.additionals:
                ctx.check(add not in ans, f'additional {ident(add)[:3]} repeats an answer')
            for i, add in enumerate(out.additionals):
                ctx.check(add not in out.additionals[:i], f'additional {ident(add)[:3]} listed twice')

    return fn


def _s(*ops: str) -> List[Tuple[str, str]]:
    return [tuple(o.split(':')) for o in ops]  # type: ignore[misc]


SCRIPTS = {
    'one': _s('reg:S1'),
    'shared-host': _s('reg:S1', 'reg:S2'),
    'two-types': _s('reg:S1', 'reg:S3'),
    'unreg-last-of-type': _s('reg:S1', 'reg:S3', 'unreg:S3'),
    'unreg-one-of-two': _s('reg:S1', 'reg:S2', 'unreg:S1'),
    'update': _s('reg:S1', 'upd:S1b'),
    'update-host': _s('reg:S1', 'reg:S2', 'upd:S1c'),
    'subtype': _s('reg:S3', 'reg:S4'),
    'upper': _s('reg:S5'),
    'empty': _s('reg:S1', 'unreg:S1'),
    'inplace-update': _s('reg:S1', 'touch:S1', 'inplace:S1p'),
    'inplace-readd': _s('reg:S1', 'touch:S1', 'inplace-readd:S1p'),
    'three': _s('reg:S1', 'reg:S2', 'reg:S3'),
    'touch-then-register': _s('reg:S1', 'touch:S1', 'reg:S2'),
    'touch-then-unregister': _s('reg:S1', 'reg:S2', 'touch:S1', 'unreg:S2'),
    'default-server': _s('reg:S6'),
    'default-server-removed': _s('reg:S3', 'reg:S6', 'unreg:S6'),
}
QUESTIONS = {
    'ptr1': [(T1, PTR)], 'ptr1-up': [('_HTTP._TCP.local.', PTR)], 'ptr2': [(T2, PTR)], 'enum': [(ENUM, PTR)], 'enum-up': [(ENUM.upper().replace('LOCAL', 'local'), PTR)],
    'sub': [('_printer._sub._ipp._tcp.local.', PTR)],
    'a': [('alpha.local.', A)], 'aaaa': [('alpha.local.', AAAA)], 'a-up': [('ALPHA.LOCAL.', A)], 'a2': [('alpha2.local.', A)],
    'a-eps': [('epsilon.local.', A)], 'aaaa-gamma': [('gamma.local.', AAAA)],
    'srv': [('Alpha._http._tcp.local.', SRV)], 'txt': [('alpha._HTTP._tcp.local.', TXT)], 'any-inst': [('Alpha._http._tcp.local.', ANY)],
    'any-type': [(T1, ANY)], 'nsec': [('alpha.local.', NSEC)], 'unknown': [('Alpha._http._tcp.local.', 99)],
    'unreg-name': [('Nobody._http._tcp.local.', SRV)], 'srv-beta': [('Beta._http._tcp.local.', SRV)],
    'ptr+srv': [(T1, PTR), ('Alpha._http._tcp.local.', SRV)], 'a+aaaa': [('alpha.local.', A), ('alpha.local.', AAAA)],
    'ptr1+ptr2': [(T1, PTR), (T2, PTR)], 'srv+txt': [('Alpha._http._tcp.local.', SRV), ('Alpha._http._tcp.local.', TXT)],
    'srv-eps': [('epsilon._http._tcp.local.', SRV)], 'ptr-gamma-srv': [(T2, PTR), ('Gamma._ipp._tcp.local.', SRV)],
    'srv+a': [('Alpha._http._tcp.local.', SRV), ('alpha.local.', A)], 'srv+a+aaaa': [('Alpha._http._tcp.local.', SRV), ('alpha.local.', A), ('alpha.local.', AAAA)],
    'a-zeta': [('Zeta Printer._ipp._tcp.local.', A)], 'aaaa-zeta-low': [('zeta printer._ipp._tcp.local.', AAAA)], 'srv-zeta': [('Zeta Printer._ipp._tcp.local.', SRV)],
}
QUICK = [
    ('one', 'ptr1', []), ('one', 'ptr1', [('S1', 'PTR')]), ('one', 'a', [('S1', 'A')]), ('one', 'aaaa', []), ('one', 'srv', [('S1', 'SRV')]),
    ('one', 'txt', [('S1', 'TXT')]), ('one', 'any-inst', []), ('one', 'enum', [('S1', 'ENUM')]), ('one', 'nsec', []), ('one', 'unknown', []),
    ('shared-host', 'a', []), ('shared-host', 'aaaa', [('S2', 'AAAA')]), ('shared-host', 'ptr1', [('S1', 'PTR'), ('S2', 'PTR')]),
    ('two-types', 'enum', []), ('unreg-last-of-type', 'enum', []), ('unreg-last-of-type', 'ptr2', []), ('unreg-one-of-two', 'ptr1', []),
    ('unreg-one-of-two', 'a', []), ('update', 'srv', []), ('update', 'a', []), ('update', 'txt', []), ('update-host', 'a', []), ('update-host', 'a2', []),
    ('subtype', 'sub', []), ('subtype', 'ptr2', []), ('upper', 'ptr1', []), ('upper', 'a-eps', [('S5', 'A')]), ('upper', 'srv-eps', []),
    ('empty', 'ptr1', []), ('empty', 'enum', []), ('one', 'ptr1-up', []), ('one', 'a-up', []), ('one', 'ptr+srv', [('S1', 'SRV')]),
    ('one', 'a+aaaa', []), ('inplace-update', 'ptr1', []), ('inplace-update', 'srv', []), ('inplace-update', 'a', []), ('inplace-readd', 'ptr1', []), ('three', 'ptr1+ptr2', [('S3', 'PTR')]), ('one', 'unreg-name', []),
    ('one', 'srv+a', []), ('one', 'srv+a+aaaa', []), ('shared-host', 'srv+a', []),
    ('touch-then-register', 'ptr1', []), ('touch-then-unregister', 'ptr1', []), ('touch-then-register', 'a', []),
    ('default-server', 'a-zeta', []), ('default-server', 'aaaa-zeta-low', []), ('default-server', 'srv-zeta', []), ('default-server', 'ptr2', []), ('default-server-removed', 'a-zeta', []),
]


def obligations(tier: str) -> List[Obligation]:
    combos = list(QUICK)
    if tier == 'thorough':
        seen = {(s, q, tuple(k)) for s, q, k in combos}
        for s in SCRIPTS:
            for q in QUESTIONS:
                if (s, q, ()) not in seen:
                    combos.append((s, q, []))
        combos += [
            ('three', 'ptr1', [('S1', 'PTR'), ('S2', 'PTR')]), ('three', 'enum', [('S1', 'ENUM'), ('S3', 'ENUM')]),
            ('shared-host', 'a+aaaa', [('S1', 'A'), ('S2', 'AAAA')]), ('two-types', 'ptr-gamma-srv', [('S3', 'PTR'), ('S3', 'SRV')]),
            ('one', 'srv+txt', [('S1', 'SRV'), ('S1', 'TXT')]), ('update', 'ptr+srv', [('S1b', 'PTR'), ('S1b', 'SRV')]),
            ('upper', 'any-type', [('S5', 'PTR')]), ('one', 'any-inst', [('S1', 'SRV'), ('S1', 'TXT')]),
        ]
    obs = []
    for s, q, k in combos:
        shape = {'script': SCRIPTS[s], 'questions': QUESTIONS[q], 'known': k}
        oid = f'respond[{s};{q};known={"+".join(a + "." + b for a, b in k) or "-"}]'
        obs.append(Obligation(oid, make(shape), 'respond', shape, timeout=90))
    return obs


META = {
    'explanation': 'Real ServiceRegistry/ServiceInfo/QueryHandler.async_response on registries reached by concrete register/update/'
    'unregister scripts over an 8-service catalogue (shared hosts, v4-only/v6-only/dual, subtype, upper-case spellings, host name defaulted from a mixed-case instance name); host_ttl and '
    'other_ttl of every service (1..2^31-1) and every known-answer TTL (0..2^32-1) are z3 integers. Answers, per-answer additionals, '
    'TTLs, flush marking and the built reply are compared with a declarative reference responder.',
    'functions': [
        'zeroconf._listener.AsyncListener.datagram_received (registry gate) / handle_query_or_defer', 'QueryHandler.handle_assembled_query', 'zeroconf._handlers.query_handler.QueryHandler.async_response/_get_answer_strategies/_answer_question/_add_pointer_answers/'
        '_add_address_answers/_add_service_type_enumeration_query_answers', 'query_handler._QueryResponse.*',
        'zeroconf._services.registry.ServiceRegistry.*', 'zeroconf._services.info.ServiceInfo._dns_* / _get_address_and_nsec_records',
        'zeroconf._dns.DNSRRSet.suppresses', 'zeroconf._handlers.answers.construct_outgoing_multicast_answers/_add_answers_additionals',
    ],
    'bounds': {'service ttl': [1, 2**31 - 1], 'known-answer ttl': [0, 2**32 - 1], 'services': '<= 3 registered at once', 'questions': '<= 2', 'known answers': '<= 2'},
    'outside': ['ANY questions on host names, NSEC records in known-answer lists (as the property says)', 'question type as a solver variable', 'more than three services'],
    'stubs': env.STUBS,
    'float_sites': ['DNSRRSet.suppresses: record.ttl / 2 compared with an integer TTL (exact below 2^53)'],
    'assumptions': ['CrossHair 0.0.110 / z3 5.1.0', 'NSEC records are identified as the implementation names them (owner = instance name)'],
}
