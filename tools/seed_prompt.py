#!/usr/bin/env python3
"""Print the prompt given to an independent sub-agent that seeds a property-breaking change.

Usage: seed_prompt.py <property id> <worktree dir>
Only the property text and the worktree path go into the prompt - nothing about /verif.
"""
import json, sys

pid, wt = sys.argv[1], sys.argv[2]
EXTRA = sys.argv[3] if len(sys.argv) > 3 else ''  # optional property-independent steering for later batches
prop = None
for line in open('/verif/properties.jsonl'):
    p = json.loads(line)
    if p['id'] == pid:
        prop = p
assert prop is not None
text = json.dumps({k: prop[k] for k in ('id', 'title', 'statement', 'quantifier', 'why_tests_cant', 'anchors')}, indent=1)
print(f"""You are helping to evaluate a verification framework by seeding realistic defects into a library.
You work ONLY inside the git worktree {wt} (a checkout of the pure-Python mDNS library python-zeroconf
at a pinned commit; sources in {wt}/src/zeroconf, tests in {wt}/tests). Do not read or touch /repo or /verif
(anything there is off limits), and never commit anything.  There is no network.  Python is /venv/bin/python.

Here is a semantic property the library is supposed to satisfy:

{text}

TASK: produce TWO different changes to the library source under {wt}/src/zeroconf that each BREAK this property
while (1) the package still imports and (2) the complete existing test suite still passes (295 tests).
Each change must need something specific in order to manifest - a particular interleaving or timing, a
boundary value, a multi-step sequence of operations, an unusual input, or two cooperating sites that each
look fine alone - NOT something ordinary use would expose at once.  Make them small (1-15 changed lines), and
plausible as mistakes a maintainer could make (refactoring slip, off-by-one at a boundary, wrong comparison
operator, forgotten case, stale cached value, wrong order of two steps...).  The two changes should be at
different sites / exercise different mechanisms of the property.
{EXTRA}

For each change k in (1, 2) write:
  {wt}/out/k/patch.diff  - `git diff` against HEAD (must apply with `git apply` from the worktree root)
  {wt}/out/k/demo.py     - a standalone deterministic script, run as
                           `PYTHONPATH={wt}/src /venv/bin/python {wt}/out/k/demo.py`, that exits 0 on the
                           unchanged tree (property holds) and exits 1 with a short message on the changed tree.
                           Prefer driving the library objects directly (no real sockets, no long sleeps).
  {wt}/out/k/notes.md    - what the change breaks, what exactly is needed for it to manifest, and why the
                           existing tests do not notice.

Test-suite command (about 2-3 minutes; the flock is MANDATORY because concurrent runs of this multicast
test suite disturb each other):
  cd {wt} && flock /tmp/zc-pytest.lock /venv/bin/python -m pytest -q -p no:cacheprovider --timeout=900 2>&1 | tail -15
You must actually run it with each change applied and see all 295 tests pass, and run demo.py both with and
without the change.  Restore the tree (`git checkout -- src`) between the two changes and at the end, so that
the worktree is clean except for out/.  Finish with a three-line summary per change.""")
