"""C18 - service-info lookup: bounded, cache-first, never from expired data.

Engine E1: the real AsyncServiceInfo.async_request coroutine on the fake loop.  Timeout (200..10000 ms),
the age and TTL of every pre-cached record and the arrival offset and TTL of every record that arrives
later are solver variables.
"""
from __future__ import annotations

from typing import Any, Dict, List, Optional, Tuple

from vkit import env
from vkit.build import VOCAB, Spec, mk_incoming
from vkit.runner import Obligation
from zeroconf import const
from zeroconf._dns import DNSQuestionType
from zeroconf._services.info import AsyncServiceInfo

PROPERTY = 'C18'
T1 = '_http._tcp.local.'
NAME = 'Alpha._http._tcp.local.'
HOST = 'alpha.local.'
SRV, TXT, A, AAAA = const._TYPE_SRV, const._TYPE_TXT, const._TYPE_A, const._TYPE_AAAA
TTL_MAX = 2**31 - 1


def make(shape: Dict[str, Any], tier: str = 'thorough') -> Any:
    cached: List[str] = shape.get('cached', [])
    arrivals: List[List[str]] = shape.get('arrivals', [])
    qtype = shape.get('question_type')
    arrival_max = shape.get('arrival_max', 400 if tier == 'quick' else 700)
    timeout_max = shape.get('timeout_max', (600 if tier == 'quick' else 1000) if (cached or arrivals) else 10000)

    def fn(ctx: Any) -> None:
        t0 = ctx.int('t0', 2**44, 2**45)
        loop = env.begin(ctx, t0)
        env.use_token_packets(True)
        zc = env.make_zc(loop)
        timeout = ctx.int('timeout', 200, timeout_max)
        # model of what is known: per vocabulary key (created, ttl)
        known: Dict[str, Tuple[Any, Any]] = {}
        for key in cached:
            age = ctx.int(f'age_{key}', 0, 2**43)
            ttl = ctx.int(f'ttl_{key}', 1, TTL_MAX)
            zc.cache.async_add_records([VOCAB[key].make(ttl, t0 - age, True)])
            known[key] = (t0 - age, ttl)
        if shape.get('history_prefilled'):
            # the same questions were asked by QM (by this instance or a neighbour) up to 2 s before the lookup starts:
            # the first (QU) query must not be affected, later QM attempts may be suppressed
            from zeroconf._dns import DNSQuestion

            for k, (qn, qt) in enumerate(((NAME, SRV), (NAME, TXT), (NAME, A), (NAME, AAAA))):
                zc.question_history.add_question_at_time(DNSQuestion(qn, qt, const._CLASS_IN), t0 - ctx.int(f'asked_before_ms{k}', 0, 2000), set())
        info = AsyncServiceInfo(T1, NAME, server=HOST) if shape.get('server_given') else AsyncServiceInfo(T1, NAME)
        seen_before = dict(info.properties)  # the application looks at the (still empty) properties before the answer arrives
        task = loop.create_task(info.async_request(zc, timeout, qtype))
        loop.run_ready()
        finished_at: Optional[Any] = t0 if task.done() else None
        arrival_times: List[Any] = []
        prev: Any = 0
        for i, dg in enumerate(arrivals):
            off = prev + ctx.int(f'arrival_gap{i}', 0, arrival_max)
            prev = off
            loop.advance_to(t0 + off)
            if finished_at is None and task.done():
                finished_at = t0 + timeout  # only the deadline can have ended it while nothing arrived
            now = loop.now_ms
            arrival_times.append(now)
            recs = []
            for j, key in enumerate(dg):
                ttl = ctx.int(f'arrival_ttl{i}_{j}', 0, TTL_MAX)
                recs.append(VOCAB[key].make(ttl, now, True))
                known[f'{key}@{i}'] = (now, ttl)
            was_done = task.done()
            zc.record_manager.async_updates_from_response(mk_incoming(now, recs))
            loop.run_ready()
            if not was_done and task.done() and finished_at is None:
                finished_at = now
        loop.advance_by(12000)
        if ctx.twin:
            return
        ctx.check(task.done(), 'async_request still running 12 s after the last arrival')
        ctx.check(task._exc is None, f'async_request raised {task._exc!r}')
        ctx.check(not loop.callback_exceptions, f'exception in a callback: {loop.callback_exceptions[:1]}')
        if finished_at is None:
            finished_at = t0 + timeout
        result = task._res
        deadline = t0 + timeout

        # ---- reference: what a lookup has read, instant by instant (records count when they are read
        #      unexpired: at the start for cached ones, at their arrival otherwise)
        def unexpired(entry: Tuple[Any, Any], at: Any) -> bool:
            return entry[0] + 1000 * entry[1] > at

        def cache_has_address(at: Any, before_arrival: int) -> bool:
            for k, e in known.items():
                base = k.split('@')[0]
                idx = int(k.split('@')[1]) if '@' in k else -1
                if base in ('A1', 'A2', 'AAAA1') and idx < before_arrival and unexpired(e, at):
                    return True
            return False

        server_known = bool(shape.get('server_given')) or any(k in ('S1', 'S1b') and unexpired(known[k], t0) for k in cached)
        have_addr = server_known and cache_has_address(t0, 0)
        success_at: Optional[Any] = t0 if (server_known and have_addr) else None
        sufficed_at_start = success_at is not None
        if success_at is None:
            for i, dg in enumerate(arrivals):
                at = arrival_times[i]
                if at >= deadline:
                    break
                for key in dg:
                    e = known[f'{key}@{i}']
                    if not unexpired(e, at):
                        continue  # goodbye
                    if key in ('A1', 'A2', 'AAAA1'):
                        if server_known:
                            have_addr = True
                    elif key in ('S1', 'S1b'):
                        if not server_known:
                            server_known = True
                            if cache_has_address(at, i):
                                have_addr = True
                if server_known and have_addr:
                    success_at = at
                    break
        if success_at is not None:
            ctx.check(result is True, 'lookup failed although an unexpired SRV and an unexpired address of its host were known in time')
            ctx.check(finished_at == success_at, 'lookup did not return at the instant it had a host and an address')
        else:
            ctx.check(result is False, 'lookup reported success without an unexpired SRV plus address')
            ctx.check(finished_at == deadline, 'unsuccessful lookup did not return exactly at its timeout')
        ctx.check(finished_at <= deadline, 'lookup returned after its timeout')
        if result is True:
            ctx.check(info.server is not None and info.server.lower() == HOST, 'host not taken from the SRV record')
            if not shape.get('server_given'):
                ctx.check(info.port in (80, 81), 'port not taken from the SRV record')
            packed = [a.packed for a in info.ip_addresses_by_version(__import__('zeroconf').IPVersion.All)]
            ctx.check(len(packed) >= 1, 'success without an address')
            for p in packed:
                ctx.check(p in (VOCAB['A1'].rd['address'], VOCAB['A2'].rd['address'], VOCAB['AAAA1'].rd['address']), 'address not from an address record of the host')
            # every address must come from a record that was unexpired at an instant at which the lookup can have read it
            # (its start for cached records, the arrival of a datagram otherwise); sound over-approximation of the read instants
            reads = [t0] + [at for at in arrival_times if at <= finished_at]
            for p in packed:
                ok: Any = False
                for k, e in known.items():
                    base = k.split('@')[0]
                    if base in ('A1', 'A2', 'AAAA1') and VOCAB[base].rd['address'] == p:
                        for r in reads:
                            ok = ok or (r >= e[0] and unexpired(e, r))
                ctx.check(ok, 'an address was taken from a record that had expired whenever the lookup could have read it')
            if sufficed_at_start:
                # answered from the cache alone: all unexpired cached addresses of the host, and nothing else
                want_addrs = sorted({VOCAB[k].rd['address'] for k in cached if k in ('A1', 'A2', 'AAAA1') and unexpired(known[k], t0)})
                ctx.check(sorted(set(packed)) == want_addrs, 'lookup answered from the cache does not hold exactly the unexpired cached addresses of the host')
        # ---- TXT: the decoded properties always are the decoding of the TXT bytes held (RFC 6763 section 6, first key wins,
        #      empty value read back as no value), also when they were looked at before the TXT record arrived
        ctx.check(seen_before == {}, 'a fresh lookup object has properties')
        want_props: Dict[bytes, Any] = {}
        raw = info.text or b''
        pos = 0
        while pos < len(raw):
            n = raw[pos]
            item = raw[pos + 1: pos + 1 + n]
            pos += 1 + n
            if item:
                k, sep, v = item.partition(b'=')
                if k not in want_props:
                    want_props[k] = (v or None) if sep else None
        ctx.check(dict(info.properties) == want_props, 'the decoded properties of the lookup are not the decoding of the TXT bytes it holds')
        txt_seen = [k for k in known if k.split('@')[0] in ('T1', 'T1b')]
        if result is True and txt_seen:
            ctx.check(info.text in (VOCAB['T1'].rd['text'], VOCAB['T1b'].rd['text']) or not info.text, 'TXT not taken from a TXT record of the instance')
        # ---- transmissions
        sends = [s for s in env.sent_log(zc)]
        for s in sends:
            ctx.check(s.t <= finished_at, 'query transmitted after the lookup returned')
            ctx.check(s.out.is_query() and s.multicast, 'lookup transmitted something other than a multicast query')
        if sufficed_at_start:
            ctx.check(not sends, 'lookup transmitted although the cache already sufficed')
        times = []
        for s in sends:
            if not times or times[-1] != s.t:
                times.append(s.t)
        if times:
            ctx.check(times[0] == t0, 'first query not sent at once')
            first = [s for s in sends if s.t == times[0]]
            for s in first:
                for q in s.out.questions:
                    ctx.check(q.unicast == (qtype is not DNSQuestionType.QM), 'first lookup query must be QU unless QM is forced')
            for s in sends:
                if s.t != times[0]:
                    for q in s.out.questions:
                        ctx.check(not q.unicast, 'lookup queries after the first must be QM')
            asked = sorted((q.name.lower(), q.type) for s in first for q in s.out.questions)
            want = []
            fresh_srv = [k for k in cached if k in ('S1', 'S1b') and known[k][0] + 500 * known[k][1] > t0]
            fresh_txt = [k for k in cached if k in ('T1', 'T1b') and known[k][0] + 500 * known[k][1] > t0]
            if not fresh_srv:
                want.append((NAME.lower(), SRV))
            if not fresh_txt:
                want.append((NAME.lower(), TXT))
            srv_unexp = [k for k in cached if k in ('S1', 'S1b') and unexpired(known[k], t0)]
            host = HOST if (srv_unexp or shape.get('server_given')) else NAME.lower()
            want += [(host, A), (host, AAAA)]
            ctx.check(asked == sorted(want), f'first query asks {asked}, expected {sorted(want)} (questions with fresh answers omitted)')
        # schedule: 200 ms + 20..120 ms after the first and after the second attempt, one second (+ jitter)
        # from then on; an attempt whose questions are all suppressed by the question history is not transmitted
        for k in range(1, len(times)):
            ctx.check(times[k] - times[k - 1] >= 220, 'lookup queries closer than 200 ms + jitter')
        for k in range(3, len(times)):
            ctx.check(times[k] - times[k - 1] >= 1000, 'lookup queries from the fourth on closer than one second')
        if len(times) >= 2 and qtype is not DNSQuestionType.QM:
            ctx.check(times[1] - times[0] <= 320 or times[1] - times[0] >= 440, 'second lookup query neither at 200 ms + jitter nor at a later slot')

    return fn


def sh(**kw: Any) -> Dict[str, Any]:
    return kw


QUICK = {
    'empty-nothing-arrives': sh(),
    'all-cached': sh(cached=['S1', 'T1', 'A1']),
    'srv-cached-address-arrives': sh(cached=['S1', 'T1'], arrivals=[['A1']]),
    'nothing-cached-all-arrive': sh(arrivals=[['S1', 'T1', 'A1']]),
    'address-then-srv': sh(arrivals=[['A1'], ['S1']]),
    'address-cached-srv-arrives': sh(cached=['A1'], arrivals=[['S1']]),
    'forced-qm': sh(question_type=DNSQuestionType.QM, arrivals=[['S1', 'A1']]),
    'forced-qu': sh(question_type=DNSQuestionType.QU),
    'address-cached-again-arrives': sh(cached=['S1', 'A1'], arrivals=[['A1']]),
    'server-given-address-cached': sh(cached=['A1'], server_given=True),
    'server-given-two-families-cached': sh(cached=['A1', 'AAAA1'], server_given=True),
    'srv-cached-aaaa-arrives': sh(cached=['S1'], arrivals=[['AAAA1']]),
    'history-prefilled': sh(history_prefilled=True, timeout_max=1500),
}
THOROUGH = {
    'srv-then-address': sh(arrivals=[['S1', 'T1'], ['A1']]),
    'address-before-srv-same-datagram': sh(arrivals=[['A1', 'S1']]),
    'two-addresses-cached': sh(cached=['S1', 'A1', 'A2', 'AAAA1']),
    'srv-cached-two-arrivals': sh(cached=['S1'], arrivals=[['T1'], ['AAAA1']]),
    'srv-update-arrives': sh(cached=['S1', 'A1'], arrivals=[['S1b']]),
    'all-cached-txt-arrives': sh(cached=['S1', 'A1'], arrivals=[['T1b']]),
    'late-arrivals': sh(arrivals=[['S1'], ['A1']], arrival_max=2500, timeout_max=4000),
    'three-arrivals': sh(arrivals=[['T1'], ['S1'], ['A1']]),
}


def obligations(tier: str) -> List[Obligation]:
    shapes = dict(QUICK)
    if tier == 'thorough':
        shapes.update(THOROUGH)
    return [Obligation(f'lookup[{k}]', make(v, tier), 'lookup', {'name': k, **{a: str(b) for a, b in v.items()}}, timeout=200 if tier == 'quick' else 900) for k, v in shapes.items()]


META = {
    'explanation': 'The real AsyncServiceInfo.async_request coroutine runs as a task on the fake loop of a socket-less instance. The timeout '
    '(200..10000 ms), age (0..2^43 ms) and TTL of every pre-cached SRV/TXT/A/AAAA record, and the arrival offset and TTL (0..2^31-1) of every record '
    'arriving later are z3 integers, so fresh / stale / expired-unpurged and before / at / after the deadline are solver-decided. Return instant, '
    'result, fields, absence of transmissions when the cache suffices, QU-then-QM, omitted questions and query spacing are compared with the statement.',
    'functions': [
        'zeroconf._services.info.ServiceInfo.async_request/_load_from_cache/_process_record_threadsafe/async_update_records/_generate_request_query/'
        '_add_question_with_known_answers/_get_address_records_from_cache_by_type/_set_ipv4_addresses_from_cache/_is_complete/async_wait',
        '_utils.asyncio.wait_for_future_set_or_timeout', 'RecordManager.async_updates_from_response/async_add_listener/async_remove_listener',
        'DNSCache.get_by_details/get_all_by_details', 'QuestionHistory.suppresses/add_question_at_time', 'DNSRecord.is_expired/is_stale',
    ],
    'bounds': {'timeout ms': '200..10000 without cached / arriving records, 200..1000 (4000 in one thorough shape) otherwise', 'age ms': [0, 2**43], 'ttl': [1, TTL_MAX], 'arrival ttl': [0, TTL_MAX], 'arrival gaps ms': [0, 700], 'arrivals': '<= 3'},
    'outside': ['several SRV records for one instance with different targets', 'the synchronous ServiceInfo.request wrapper (threads)', 'known-answer lists of the lookup queries (C13)'],
    'stubs': env.STUBS,
    'float_sites': [],
    'assumptions': ['CrossHair 0.0.110 / z3 5.1.0', 'timers fire exactly on time'],
}
