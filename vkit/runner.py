"""Obligation runner: solver-decided obligations in parallel worker processes, native replay of
every counterexample, known-findings handling, evidence file and exit codes.

exit 0  property held on everything explored (inconclusive obligations are reported, never counted
        as discharged and never turned into violations)
exit 1  a counterexample reproduced natively against /repo and is not a listed known finding
        (prints `VIOLATION property=<id> replay=<path>`)
exit 3  harness error: non-reproducing counterexample, vacuous family (reachability twin did not
        fail), crashed worker.  No VIOLATION line is printed.
"""
from __future__ import annotations

import json
import multiprocessing as mp
import os
import re
import subprocess
import sys
import time
import traceback
from typing import Any, Callable, Dict, List, Optional

VERIF = os.path.dirname(os.path.dirname(os.path.abspath(__file__)))
EVID = os.environ.get('VERIF_EVIDENCE_DIR') or os.path.join(VERIF, 'evidence')
REPLAYS = os.path.join(EVID, 'replays')
HARNESS_ERROR = 3


class Obligation:
    """One solver-decided obligation.

    kind 'sx'  : fn(ctx) executed symbolically by CrossHair (engine E1); property violations are
                 reported through ctx.check / exceptions.
    kind 'smt' : fn() builds and discharges SMT queries itself (engine E2) and returns a dict
                 {verdict: discharged|counterexample|inconclusive, witness, queries, solver_s, detail};
                 replay(witness) -> list of failure strings evaluated on the real code natively.
    """

    def __init__(
        self,
        oid: str,
        fn: Callable,
        family: str,
        shape: Optional[Dict[str, Any]] = None,
        kind: str = 'sx',
        timeout: float = 60.0,
        path_timeout: Optional[float] = None,
        replay: Optional[Callable] = None,
        twin: bool = True,
        note: str = '',
    ) -> None:
        self.oid, self.fn, self.family, self.shape = oid, fn, family, shape or {}
        self.kind, self.timeout, self.path_timeout = kind, timeout, path_timeout
        self.replay, self.twin, self.note = replay, twin, note


# ----------------------------------------------------------------------------- workers


def _sx_worker(ob: Obligation, twin: bool, known: List[Dict[str, Any]], conn: Any) -> None:
    t0 = time.time()
    res: Dict[str, Any] = {'oid': ob.oid, 'twin': twin}
    try:
        from crosshair.core_and_libs import analyze_function, run_checkables
        from crosshair.options import AnalysisOptionSet
        from crosshair.tracers import NoTracing

        from . import chpatch, env
        from .sym import Ctx

        chpatch.apply()
        paths = [0]
        wit: Dict[str, Any] = {}
        khits: List[str] = []

        def harness(dummy: int) -> bool:
            """
            post: _
            """
            paths[0] += 1
            ctx = Ctx('sym', twin=twin)
            ctx.known = known  # type: ignore[attr-defined]
            try:
                ob.fn(ctx)
            except Exception as e:  # CrossHair's control-flow exceptions are BaseException
                with NoTracing():
                    tb = traceback.extract_tb(e.__traceback__)
                    where = ' <- '.join(f'{os.path.basename(f.filename)}:{f.lineno}' for f in tb[-3:])
                    ctx.failures.append(f'exception {type(e).__name__} at {where}')
            finally:
                env.end()
            failures = ctx.failures
            if known:
                keep = []
                for f in failures:
                    if any(re.search(k['reason'], f) and _when(k, ctx.vars) for k in known):
                        with NoTracing():
                            khits.append(f)
                    else:
                        keep.append(f)
                failures = keep
            ok = not failures
            if twin:
                ok = False
            if not ok:
                w = ctx.witness()
                with NoTracing():
                    wit.clear()
                    wit.update(values=w, failures=[str(f) for f in failures], bounds=ctx.bounds)
            return ok

        opts = AnalysisOptionSet(
            per_condition_timeout=ob.timeout,
            per_path_timeout=ob.path_timeout or max(5.0, ob.timeout / 3),
            report_all=True,
        )
        msgs = run_checkables(analyze_function(harness, opts))
        states = [m.state.name for m in msgs]
        res['states'] = states
        res['messages'] = [m.message[:300] for m in msgs]
        res['paths'] = paths[0]
        res['known_hits'] = sorted(set(khits))[:5]
        if any(s in ('POST_FAIL', 'EXEC_ERR', 'POST_ERR') for s in states):
            res['verdict'] = 'counterexample'
            res['witness'] = wit
        elif states == ['CONFIRMED']:
            res['verdict'] = 'confirmed'
        else:
            res['verdict'] = 'inconclusive'
    except BaseException as e:  # noqa: BLE001
        res['verdict'] = 'error'
        res['error'] = ''.join(traceback.format_exception(type(e), e, e.__traceback__))[-2000:]
    res['wall_s'] = round(time.time() - t0, 3)
    conn.send(res)
    conn.close()


def _smt_worker(ob: Obligation, conn: Any) -> None:
    t0 = time.time()
    res: Dict[str, Any] = {'oid': ob.oid, 'twin': False}
    try:
        r = ob.fn()
        res.update(r)
        v = r['verdict']
        res['verdict'] = {'discharged': 'confirmed'}.get(v, v)
        res['paths'] = r.get('queries', 0)
    except BaseException as e:  # noqa: BLE001
        res['verdict'] = 'error'
        res['error'] = ''.join(traceback.format_exception(type(e), e, e.__traceback__))[-2000:]
    res['wall_s'] = round(time.time() - t0, 3)
    conn.send(res)
    conn.close()


def _run_parallel(jobs: List[Any], nproc: int) -> List[Dict[str, Any]]:
    """jobs: list of (target, args, hard_timeout).  Returns results in job order."""
    ctx = mp.get_context('fork')
    results: List[Optional[Dict[str, Any]]] = [None] * len(jobs)
    running: Dict[int, Any] = {}
    nxt = 0
    while nxt < len(jobs) or running:
        while nxt < len(jobs) and len(running) < nproc:
            target, args, hard = jobs[nxt]
            parent, child = ctx.Pipe(duplex=False)
            p = ctx.Process(target=target, args=(*args, child), daemon=True)
            p.start()
            child.close()
            running[nxt] = (p, parent, time.time(), hard)
            nxt += 1
        time.sleep(0.05)
        for i in list(running):
            p, parent, t0, hard = running[i]
            if parent.poll():
                try:
                    results[i] = parent.recv()
                except EOFError:
                    results[i] = {'verdict': 'error', 'error': 'worker died', 'wall_s': time.time() - t0}
                p.join(5)
                if p.is_alive():
                    p.kill()
                del running[i]
            elif not p.is_alive():
                results[i] = {'verdict': 'error', 'error': f'worker exited {p.exitcode}', 'wall_s': time.time() - t0}
                del running[i]
            elif time.time() - t0 > hard:
                p.kill()
                p.join()
                results[i] = {'verdict': 'inconclusive', 'states': ['HARD_TIMEOUT'], 'wall_s': time.time() - t0, 'paths': 0}
                del running[i]
    return results  # type: ignore[return-value]


# ----------------------------------------------------------------------------- native replay


def replay_native(module: str, oid: str, witness: Dict[str, Any]) -> Dict[str, Any]:
    """Run the obligation once in a plain interpreter (fresh process, no symbolic engine)."""
    payload = json.dumps({'module': module, 'oid': oid, 'witness': witness})
    cp = subprocess.run(
        [sys.executable, '-m', 'vkit.replay'], input=payload, capture_output=True, text=True, cwd=VERIF, timeout=600
    )
    try:
        return json.loads(cp.stdout.strip().splitlines()[-1])
    except Exception:
        return {'error': (cp.stdout + cp.stderr)[-2000:], 'failures': None}


# ----------------------------------------------------------------------------- known findings


def load_known(pid: str) -> List[Dict[str, Any]]:
    path = os.path.join(VERIF, 'known_findings.json')
    if not os.path.exists(path):
        return []
    data = json.load(open(path))
    return [f for f in data.get('findings', []) if f['property'] == pid and f.get('status', 'open') == 'open']


def _when(k: Dict[str, Any], values: Dict[str, Any]) -> Any:
    """Optional witness predicate of a known finding (a Python expression over the obligation's variables)."""
    expr = k.get('when')
    if not expr:
        return True
    return eval(expr, {'__builtins__': {}}, dict(values))  # noqa: S307 - expression comes from the committed findings file


def match_known(known: List[Dict[str, Any]], ob: Obligation, failures: List[str], values: Optional[Dict[str, Any]] = None) -> Optional[Dict[str, Any]]:
    for k in known:
        if not re.search(k['obligation'], ob.oid):
            continue
        if failures and all(re.search(k['reason'], f) for f in failures) and _when(k, values or {}):
            return k
    return None


# ----------------------------------------------------------------------------- main entry


def run_property(
    pid: str,
    module: str,
    obligations: List[Obligation],
    meta: Dict[str, Any],
    tier: str,
    seed: int,
    nproc: Optional[int] = None,
) -> int:
    t_start = time.time()
    nproc = nproc or max(1, min(16, (os.cpu_count() or 4)))
    os.makedirs(EVID, exist_ok=True)
    known = load_known(pid)
    order = list(range(len(obligations)))
    if seed:
        import random

        random.Random(seed).shuffle(order)  # only the scheduling order depends on the seed
    obs = [obligations[i] for i in order]

    jobs = []
    index = []
    twin_families = set()
    for ob in obs:
        if ob.kind == 'smt':
            jobs.append((_smt_worker, (ob,), ob.timeout * 2 + 60))
        else:
            jobs.append((_sx_worker, (ob, False, []), ob.timeout * 1.5 + 60))
        index.append((ob, False))
        if ob.kind == 'sx' and ob.twin and (tier == 'thorough' or ob.family not in twin_families):
            twin_families.add(ob.family)
            jobs.append((_sx_worker, (ob, True, []), ob.timeout * 1.5 + 60))
            index.append((ob, True))
    results = _run_parallel(jobs, nproc)

    rows: List[Dict[str, Any]] = []
    violations: List[Dict[str, Any]] = []
    known_hits: List[Dict[str, Any]] = []
    harness_errors: List[str] = []
    rerun: List[Any] = []
    for (ob, twin), res in zip(index, results):
        row = {
            'obligation': ob.oid + ('#twin' if twin else ''),
            'family': ob.family,
            'engine': 'E1-crosshair' if ob.kind == 'sx' else 'E2-smt',
            'verdict': res['verdict'],
            'paths_or_queries': res.get('paths', 0),
            'wall_s': res.get('wall_s'),
        }
        if 'solver_s' in res:
            row['solver_s'] = res['solver_s']
        if twin:
            if res['verdict'] == 'counterexample':
                row['verdict'] = 'twin-reached'
            elif res['verdict'] == 'inconclusive':
                row['verdict'] = 'twin-inconclusive'
            else:
                row['verdict'] = 'VACUOUS'
                harness_errors.append(f'reachability twin of {ob.oid} did not fail: {res}')
            rows.append(row)
            continue
        if res['verdict'] == 'error':
            harness_errors.append(f'{ob.oid}: {res.get("error")}')
        elif res['verdict'] == 'counterexample':
            wit = res.get('witness') or {}
            values = wit.get('values', wit)
            rp = replay_native(module, ob.oid, values)
            row['witness'] = values
            row['sym_failures'] = wit.get('failures')
            row['replay_failures'] = rp.get('failures')
            if rp.get('failures'):
                k = match_known(known, ob, rp['failures'], values)
                if k is not None:
                    row['verdict'] = 'known-finding'
                    known_hits.append({'finding': k, 'ob': ob, 'values': values, 'failures': rp['failures']})
                    rerun.append((ob, k))
                else:
                    row['verdict'] = 'VIOLATION'
                    violations.append({'ob': ob, 'values': values, 'failures': rp['failures']})
            else:
                row['verdict'] = 'non-reproducing'
                harness_errors.append(f'{ob.oid}: counterexample {values} did not reproduce natively: {rp}')
        elif res['verdict'] == 'inconclusive':
            row['states'] = res.get('states')
        rows.append(row)

    # obligations that hit a known finding are decided again with that finding masked, so that a
    # different violation of the same obligation is still found
    if rerun:
        jobs2 = [(_sx_worker, (ob, False, [k]), ob.timeout * 1.5 + 60) for ob, k in rerun if ob.kind == 'sx']
        idx2 = [(ob, k) for ob, k in rerun if ob.kind == 'sx']
        for (ob, k), res in zip(idx2, _run_parallel(jobs2, nproc)):
            row = {
                'obligation': ob.oid + '#masked',
                'family': ob.family,
                'engine': 'E1-crosshair',
                'verdict': res['verdict'],
                'paths_or_queries': res.get('paths', 0),
                'wall_s': res.get('wall_s'),
                'masked_finding': k['id'],
            }
            if res['verdict'] == 'counterexample':
                wit = res.get('witness') or {}
                values = wit.get('values', wit)
                rp = replay_native(module, ob.oid, values)
                fails = [f for f in (rp.get('failures') or []) if not (re.search(k['reason'], f) and _when(k, values))]
                row['witness'] = values
                row['replay_failures'] = fails
                if fails:
                    row['verdict'] = 'VIOLATION'
                    violations.append({'ob': ob, 'values': values, 'failures': fails})
                else:
                    row['verdict'] = 'inconclusive'
            elif res['verdict'] == 'error':
                harness_errors.append(f'{ob.oid}#masked: {res.get("error")}')
            rows.append(row)

    # ------------------------------------------------------------------ report
    main_rows = [r for r in rows if '#twin' not in r['obligation']]
    n_ob = len([r for r in main_rows if '#masked' not in r['obligation']])
    discharged = len([r for r in main_rows if r['verdict'] == 'confirmed' and '#masked' not in r['obligation']])
    discharged += len([r for r in main_rows if '#masked' in r['obligation'] and r['verdict'] == 'confirmed'])
    inconclusive = [r['obligation'] for r in main_rows if r['verdict'] in ('inconclusive', 'non-reproducing', 'error')]
    paths = sum(int(r.get('paths_or_queries') or 0) for r in rows)
    solver_wall = round(sum(float(r.get('wall_s') or 0) for r in rows), 2)

    os.makedirs(os.path.join(REPLAYS, pid), exist_ok=True)
    exit_code = 0
    for kh in known_hits:
        k = kh['finding']
        print(f'KNOWN-FINDING: property={pid} {k["id"]}: {k["what"]} (obligation {kh["ob"].oid}, witness {kh["values"]})')
    seen_known = {kh['finding']['id'] for kh in known_hits}
    for v in violations:
        ob = v['ob']
        path = os.path.join(REPLAYS, pid, re.sub(r'[^A-Za-z0-9_.-]', '_', ob.oid) + '.json')
        json.dump(
            {'property': pid, 'module': module, 'oid': ob.oid, 'shape': ob.shape, 'witness': v['values'], 'failures': v['failures']},
            open(path, 'w'),
            indent=1,
            default=str,
        )
        print(f'VIOLATION property={pid} replay={path}')
        for f in v['failures'][:3]:
            print(f'  {ob.oid}: {f}')
        exit_code = 1
    if harness_errors and exit_code == 0:
        exit_code = HARNESS_ERROR
    for h in harness_errors:
        print('HARNESS-ERROR:', h[:1500])

    samples = []
    for r in rows:
        if len(samples) >= 6:
            break
        ob = next((o for o in obs if r['obligation'].startswith(o.oid)), None)
        samples.append({'obligation': r['obligation'], 'shape': ob.shape if ob else None, 'verdict': r['verdict'], 'witness': r.get('witness')})
    evidence = {
        'property_id': pid,
        'tier': tier,
        'seed': seed,
        'level': 'other',
        'coverage': {
            'explanation': meta.get('explanation', ''),
            'technique': 'bounded symbolic execution of the real code (CrossHair/z3) and SMT lemmas over kernels translated from /repo source; solver verdict per obligation',
            'obligations': n_ob,
            'discharged': discharged,
            'inconclusive': inconclusive,
            'known_findings_hit': sorted(seen_known),
            'paths_explored': paths,
            'paths_rule': 'symbolic paths executed by CrossHair (each is one class of inputs whose feasibility and verdict z3 decided; paths rejected by the bounds are included) plus SMT queries issued by E2 lemmas',
            'samples': samples,
            'functions_encoded': meta.get('functions', []),
            'bounds': meta.get('bounds', {}),
            'outside_claim': meta.get('outside', []),
            'stubs': meta.get('stubs', []),
            'float_sites': meta.get('float_sites', []),
            'per_obligation': rows,
            'solver_wall_s_sum': solver_wall,
            'exhaustive': False,
        },
        'assumptions': meta.get('assumptions', []),
        'wall_s': round(time.time() - t_start, 2),
        'violations': len(violations),
    }
    json.dump(evidence, open(os.path.join(EVID, f'{pid}.json'), 'w'), indent=1, default=str)
    print(
        f'{pid} [{tier}] obligations={n_ob} discharged={discharged} inconclusive={len(inconclusive)} '
        f'known={len(seen_known)} violations={len(violations)} paths/queries={paths} wall={evidence["wall_s"]}s exit={exit_code}'
    )
    if inconclusive:
        print('  inconclusive:', ', '.join(inconclusive[:12]))
    return exit_code
