"""Reference models written from the RFC 6762 text / the property statements (not from the code).

They operate on the same (possibly symbolic) TTLs and instants as the real objects, so a
comparison `real == model` is a solver-decided condition on each path.
"""
from __future__ import annotations

from typing import Any, Dict, List, Optional, Tuple

PTR_FLOOR = 1125  # seconds: a quarter of the 4500 s default (property C06)


class MEntry:
    __slots__ = ('ident', 'created', 'ttl')

    def __init__(self, ident: Tuple, created: Any, ttl: Any) -> None:
        self.ident, self.created, self.ttl = ident, created, ttl

    def expired(self, now: Any) -> bool:
        return self.created + 1000 * self.ttl <= now


class Expect:
    """What one response datagram must do (property C06)."""

    def __init__(self) -> None:
        self.pairs: List[Tuple[Tuple, bool]] = []  # (identity of `new`, previous existed?) in datagram order
        self.first: Dict[Tuple, Tuple[Any, Any]] = {}  # cache visible during the first callback
        self.second: Dict[Tuple, Tuple[Any, Any]] = {}  # cache visible during the second callback
        self.new_idents: List[Tuple] = []  # identities that were not cached before


class RefCache:
    """RFC 6762 section 10 cache: a plain list of (identity, created, ttl)."""

    def __init__(self) -> None:
        self.entries: List[MEntry] = []

    def find(self, ident: Tuple) -> Optional[MEntry]:
        for e in self.entries:
            if e.ident == ident:
                return e
        return None

    def snapshot(self) -> Dict[Tuple, Tuple[Any, Any]]:
        return {e.ident: (e.created, e.ttl) for e in self.entries}

    def ingest(self, now: Any, items: List[Tuple[Any, Any, bool]]) -> Expect:
        """items: (spec, ttl as received, cache-flush bit) in datagram order."""
        ex = Expect()
        adds: List[MEntry] = []
        removes: List[Tuple] = []
        in_datagram = [spec.ident for spec, _, _ in items]
        for spec, ttl, _ in items:
            eff = ttl
            if spec.kind in ('PTR', 'CNAME') and spec.type == 12 and ttl != 0 and ttl < PTR_FLOOR:
                eff = PTR_FLOOR
            cached = self.find(spec.ident)
            if eff != 0:
                if cached is not None:
                    cached.created, cached.ttl = now, eff
                    ex.pairs.append((spec.ident, True))
                else:
                    adds.append(MEntry(spec.ident, now, eff))
                    ex.pairs.append((spec.ident, False))
                    ex.new_idents.append(spec.ident)
            elif cached is not None:
                ex.pairs.append((spec.ident, True))
                removes.append(spec.ident)
        # cache-flush: other records of the same name / type / class older than one second
        for spec, _, flush in items:
            if not flush:
                continue
            for e in self.entries:
                same_set = e.ident[1] == spec.name.lower() and e.ident[2] == spec.type and e.ident[3] == spec.ident[3]
                if same_set and e.ident not in in_datagram and now - e.created > 1000:
                    e.created, e.ttl = now, 1
        ex.first = self.snapshot()
        # addresses are added before other records (observable only through insertion order)
        for e in [a for a in adds if a.ident[0] in ('A', 'AAAA')] + [a for a in adds if a.ident[0] not in ('A', 'AAAA')]:
            old = self.find(e.ident)
            if old is not None:  # the same new record listed twice: the later copy stands
                old.created, old.ttl = e.created, e.ttl
            else:
                self.entries.append(e)
        for ident in removes:
            e2 = self.find(ident)
            if e2 is not None:
                self.entries.remove(e2)
        ex.second = self.snapshot()
        return ex

    def purge(self, now: Any) -> List[Tuple]:
        gone = [e for e in self.entries if e.expired(now)]
        self.entries = [e for e in self.entries if not e.expired(now)]
        return [e.ident for e in gone]
