"""C12 - reply timing: jitter, aggregation, one-second protection, truncated queries.

Engine E1: real AsyncListener.handle_query_or_defer -> QueryHandler.handle_assembled_query ->
MulticastOutgoingQueue on the fake loop.  Arrival gaps, every jitter draw (20..120, 400..500) and the
age of each previously sighted record are solver variables; the send times recorded by the fake
transport are checked against per-query windows.
"""
from __future__ import annotations

from typing import Any, Dict, List, Tuple

from vkit import env
from vkit.responder import V4A, V4B, V6B, Q, Svc, mk_query, reference_answers
from vkit.runner import Obligation
from zeroconf import const

PROPERTY = 'C12'
T1, T2 = '_http._tcp.local.', '_ipp._tcp.local.'
PTR, A, AAAA, SRV, TXT, NSEC = const._TYPE_PTR, const._TYPE_A, const._TYPE_AAAA, const._TYPE_SRV, const._TYPE_TXT, const._TYPE_NSEC
IMMEDIATE_TYPES = (SRV, A, AAAA, NSEC)
N1, N3 = 'Alpha._http._tcp.local.', 'Gamma._ipp._tcp.local.'


def services() -> Dict[str, Svc]:
    return {
        'S1': Svc('S1', T1, N1, 'alpha.local.', 80, [V4A], []),
        'S3': Svc('S3', T2, N3, 'gamma.local.', 631, [V4B], [V6B]),
    }


def expected_for(svcs: List[Svc], ev: Dict[str, Any], known: List[Tuple[Any, Any]]) -> Dict[Tuple, Any]:
    out: Dict[Tuple, Any] = {}
    for n, t in ev['q']:
        for spec, _ttl, _u, _adds in reference_answers(svcs, Q(n, t), known):
            out[spec.ident] = spec
    return out


def make(shape: Dict[str, Any]) -> Any:
    events: List[Dict[str, Any]] = shape['events']
    sighted: List[Tuple[str, str]] = shape.get('sighted', [])

    def fn(ctx: Any) -> None:
        t0 = ctx.int('t0', 5000, 2**40)
        loop = env.begin(ctx, t0)
        env.use_token_packets(True)
        zc = env.make_zc(loop)
        cat = services()
        svcs = [cat[k] for k in shape.get('services', ['S1', 'S3'])]
        for s in svcs:
            zc.registry.async_add(s.info())
        proto = zc.engine.protocols[0]
        if shape.get('loopback'):
            # the instance hears its own multicast (IP_MULTICAST_LOOP): every record it transmits is a sighting from then on
            from vkit.link import Link

            Link(loop, ctx, None, []).attach('10.0.0.1', zc)
        sight: Dict[Tuple, Any] = {}
        for key, kind in sighted:
            s = cat[key]
            spec, ttl, uniq = {'PTR': s.ptr, 'SRV': s.srv, 'TXT': s.txt, 'A': lambda: s.addrs(A)[0]}[kind]()
            when = t0 - ctx.int(f'age_{key}_{kind}', 0, 2500)
            zc.cache.async_add_records([spec.make(ttl, when, uniq)])
            sight[spec.ident] = when
        # ---- drive
        arrivals: List[Any] = []
        sent_before: List[int] = []  # transmissions made before each packet was handed in
        for i, ev in enumerate(events):
            if i > 0:
                loop.advance_by(ctx.int(f'gap{i}', 0, 2000))
            now = loop.now_ms
            arrivals.append(now)
            sent_before.append(len(env.sent_log(zc)))
            known_recs = []
            for j, (key, kind) in enumerate(ev.get('known', [])):
                s = cat[key]
                spec, ttl, uniq = {'PTR': s.ptr, 'SRV': s.srv, 'TXT': s.txt, 'A': lambda: s.addrs(A)[0]}[kind]()
                known_recs.append(spec.make(ttl, now, uniq))  # full TTL: suppresses
            msg = mk_query(now, [Q(n, t) for n, t in ev['q']], known_recs, (ev.get('src', '10.0.0.9'), 5353),
                           truncated=ev.get('tc', False), probe_authorities=1 if ev.get('probe') else 0,
                           data=ev.get('data', f'pkt{i}').encode())
            proto.handle_query_or_defer(msg, ev.get('src', '10.0.0.9'), 5353, proto.transport, ())
        loop.advance_by(4000)
        if ctx.twin:
            return
        ctx.check(not loop.callback_exceptions, f'exception in a timer callback: {loop.callback_exceptions[:1]}')
        sends = [s for s in env.sent_log(zc)]
        for s in sends:
            ctx.check(s.multicast, 'a QM query from port 5353 caused a unicast transmission')
            recs = s.records()
            for a_i, r in enumerate(recs):
                ctx.check(r not in recs[:a_i], f'record {r.name}/{r.type} appears twice in one reply')
        # ---- logical queries: (time handled, window kind, expected answers)
        logical: List[Dict[str, Any]] = []
        trains: Dict[str, List[int]] = {}
        deadline: Dict[str, Any] = {}
        tc_draws = [v for lo_, hi_, v in env.CUR_RAND_LOG() if lo_ == 400]
        n_tc = 0
        for i, ev in enumerate(events):
            src = ev.get('src', '10.0.0.9')
            if src in trains and deadline[src] <= arrivals[i]:  # the hold timer fired before this packet
                logical.append({'members': trains.pop(src), 'released_by_timer': True})
            if ev.get('tc'):
                dup = any(events[k].get('data', f'pkt{k}') == ev.get('data', f'pkt{i}') for k in trains.get(src, []))
                if not dup:
                    trains.setdefault(src, []).append(i)
                    deadline[src] = arrivals[i] + tc_draws[n_tc]
                    n_tc += 1
                continue
            members = trains.pop(src, []) + [i]
            logical.append({'members': members, 'released_by_timer': False})
        for src, members in trains.items():
            logical.append({'members': members, 'released_by_timer': True})
        for lq in logical:
            members = lq['members']
            known: List[Tuple[Any, Any]] = []
            for m in members:
                for key, kind in events[m].get('known', []):
                    s = cat[key]
                    spec, ttl, _ = {'PTR': s.ptr, 'SRV': s.srv, 'TXT': s.txt, 'A': lambda: s.addrs(A)[0]}[kind]()
                    known.append((spec, ttl))
            exp: Dict[Tuple, Any] = {}
            for m in members:
                exp.update(expected_for(svcs, events[m], known))
            lq['expected'] = exp
            lq['last'] = arrivals[members[-1]]
            lq['first'] = arrivals[members[0]]
            lq['probe'] = any(events[m].get('probe') for m in members)
            first_q = events[members[0]]['q']
            lq['single_immediate'] = len(first_q) == 1 and first_q[0][1] in IMMEDIATE_TYPES

        def windows(lq: Dict[str, Any], ident: Tuple) -> Tuple[Any, Any]:
            """[earliest, latest] instant at which this query's answer `ident` may be multicast."""
            last = lq['last']
            if lq['released_by_timer']:
                return last + 400, last + 500 + 500
            if len(lq['members']) > 1:
                return last, last + 500
            if lq['probe']:
                return last, last
            s_when = sight.get(ident)
            if shape.get('loopback'):
                # own transmissions made before the query arrived (answers and additionals alike) are sightings too
                for s in sends[: sent_before[lq['members'][-1]]]:
                    if any(spec_ident(r, lq['expected']) == ident for r in s.records()):
                        if s_when is None or s.t > s_when:
                            s_when = s.t
            if s_when is not None and last - s_when < 1000:
                lo = last + 1020
                return (lo if lo > s_when + 1000 else s_when + 1000), last + 1200
            if lq['single_immediate']:
                return last, last
            return last + 20, last + 500

        # liveness: every expected answer of every query is multicast inside (or, when an earlier
        # pending batch already carried it, not later than) its window
        for k, lq in enumerate(logical):
            for ident in lq['expected']:
                lo, hi = windows(lq, ident)
                hit = False
                for s in sends:
                    if any(spec_ident(r, lq['expected']) == ident for r, _ in s.out.answers):
                        if lq['first'] <= s.t and s.t <= hi:
                            hit = True
                ctx.check(hit, f'query {k} ({[events[m]["q"] for m in lq["members"]]}): answer {ident[:3]} not multicast by its deadline')
        # safety: every multicast answer is justified by a query whose window contains the send time
        allexp: Dict[Tuple, Any] = {}
        for lq in logical:
            allexp.update(lq['expected'])
        for s in sends:
            for r, _ in s.out.answers:
                ident = spec_ident(r, allexp)
                ok = False
                for lq in logical:
                    if ident in lq['expected']:
                        lo, hi = windows(lq, ident)
                        if lo <= s.t and s.t <= hi:
                            ok = True
                ctx.check(ok, f'answer {ident[:3]} multicast at a time no query window allows (too early, too late or not asked)')
        # economy: a record is not multicast more often than it was asked for
        for ident in allexp:
            n_sent = sum(1 for s in sends for r, _ in s.out.answers if spec_ident(r, allexp) == ident)
            n_asked = sum(1 for lq in logical if ident in lq['expected'])
            ctx.check(n_sent <= n_asked, f'answer {ident[:3]} multicast {n_sent} times for {n_asked} queries')
        ctx.check(not zc.out_queue.queue and not zc.out_delay_queue.queue, 'answers left in an aggregation queue after 4 s')
        ctx.check(not proto._deferred and not proto._timers, 'deferred truncated packets / timers left behind')

    return fn


def spec_ident(rec: Any, exp: Dict[Tuple, Any]) -> Any:
    for ident, spec in exp.items():
        if spec.make(0, 1) == rec:
            return ident
    return ('UNEXPECTED', rec.name, rec.type)


def q(*qs: Tuple[str, int], **kw: Any) -> Dict[str, Any]:
    d: Dict[str, Any] = {'q': list(qs)}
    d.update(kw)
    return d


QUICK: Dict[str, Dict[str, Any]] = {
    'ptr': {'events': [q((T1, PTR))]},
    'srv-immediate': {'events': [q((N1, SRV))]},
    'a-immediate': {'events': [q(('alpha.local.', A))]},
    'nsec-immediate': {'events': [q(('alpha.local.', AAAA))]},
    'txt-aggregated': {'events': [q((N1, TXT))]},
    'multi-question': {'events': [q((N1, SRV), (N1, TXT))]},
    'probe': {'events': [q((T1, PTR), probe=True)]},
    'ptr-ptr': {'events': [q((T1, PTR)), q((T1, PTR))]},
    'ptr-ptr2': {'events': [q((T1, PTR)), q((T2, PTR))]},
    'ptr-sighted': {'events': [q((T1, PTR))], 'sighted': [('S1', 'PTR')]},
    'ptr-sighted-twice': {'events': [q((T1, PTR)), q((T1, PTR))], 'sighted': [('S1', 'PTR')]},
    'txt+ptr-sighted': {'events': [q((N1, TXT)), q((T1, PTR))], 'sighted': [('S1', 'TXT'), ('S1', 'PTR')]},
    'srv-sighted': {'events': [q((N1, SRV))], 'sighted': [('S1', 'SRV')]},
    'probe-sighted': {'events': [q((T1, PTR), probe=True)], 'sighted': [('S1', 'PTR')]},
    'tc-alone': {'events': [q((T1, PTR), tc=True)]},
    'tc-then-final': {'events': [q((T1, PTR), tc=True), q((T1, PTR), known=[('S1', 'PTR')])]},
    'known-suppresses': {'events': [q((T1, PTR), known=[('S1', 'PTR')])]},
    'loopback-ptr-ptr': {'events': [q((T1, PTR)), q((T1, PTR))], 'loopback': True, 'services': ['S1']},
    'loopback-ptr-srv': {'events': [q((T1, PTR)), q((N1, SRV))], 'loopback': True, 'services': ['S1']},
    'loopback-srv-srv': {'events': [q((N1, SRV)), q((N1, SRV))], 'loopback': True, 'services': ['S1']},
    'loopback-srv-ptr-srv': {'events': [q((N1, SRV)), q((T1, PTR)), q((N1, SRV))], 'loopback': True, 'services': ['S1']},
    'ptr-ptr-ptr': {'events': [q((T1, PTR)), q((T1, PTR)), q((T2, PTR))]},
}
THOROUGH: Dict[str, Dict[str, Any]] = {
    'ptr-txt-ptr2': {'events': [q((T1, PTR)), q((N1, TXT)), q((T2, PTR))]},
    'txt-sighted+ptr': {'events': [q((N1, TXT)), q((T1, PTR))], 'sighted': [('S1', 'TXT')]},
    'multi-sighted': {'events': [q((N1, SRV), (N1, TXT))], 'sighted': [('S1', 'SRV'), ('S1', 'TXT')]},
    'a-sighted': {'events': [q(('alpha.local.', A))], 'sighted': [('S1', 'A')]},
    'tc-tc': {'events': [q((T1, PTR), tc=True), q((T1, PTR), tc=True, known=[('S1', 'PTR')])]},
    'tc-dup': {'events': [q((T1, PTR), tc=True, data='same'), q((T1, PTR), tc=True, data='same')]},
    'tc-two-sources': {'events': [q((T1, PTR), tc=True, src='10.0.0.7'), q((T2, PTR), tc=True, src='10.0.0.8')]},
    'tc-other-source-final': {'events': [q((T1, PTR), tc=True, src='10.0.0.7'), q((T1, PTR), src='10.0.0.8')]},
    'tc-tc-final': {'events': [q((T1, PTR), tc=True), q((T1, PTR), tc=True), q((T1, PTR), known=[('S1', 'PTR')])]},
    'probe-then-ptr': {'events': [q((T1, PTR), probe=True), q((T1, PTR))]},
    'srv-then-ptr': {'events': [q((N1, SRV)), q((T1, PTR))]},
    'ptr2-srv3': {'events': [q((T2, PTR)), q((N3, SRV)), q((T2, PTR))]},
    'loopback-ptr-a-ptr': {'events': [q((T1, PTR)), q(('alpha.local.', A)), q((T1, PTR))], 'loopback': True, 'services': ['S1']},
    'loopback-txt-ptr': {'events': [q((N1, TXT)), q((T1, PTR))], 'loopback': True, 'services': ['S1']},
    'loopback-probe-ptr': {'events': [q((T1, PTR), probe=True), q((T1, PTR))], 'loopback': True, 'services': ['S1']},
}


def obligations(tier: str) -> List[Obligation]:
    shapes = dict(QUICK)
    if tier == 'thorough':
        shapes.update(THOROUGH)
    return [Obligation(f'timing[{k}]', make(v), 'timing', {'name': k, **v}, timeout=120 if tier == 'quick' else 600) for k, v in shapes.items()]


META = {
    'explanation': 'Real listener -> query handler -> multicast queues driven on the fake loop for enumerated query sequences '
    '(1..3 queries, QM from port 5353; probes; truncated trains from one or two sources); arrival gaps 0..2000 ms, every 20..120 / '
    '400..500 jitter draw and each sighting age 0..2500 ms are z3 integers. Send times are checked per query: liveness (answered by '
    'the deadline), safety (every multicast answer lies in the window of some query that asked for it), economy and batch uniqueness.',
    'functions': [
        'zeroconf._listener.AsyncListener.handle_query_or_defer/_respond_query/_cancel_any_timers_for_addr',
        'zeroconf._handlers.query_handler.QueryHandler.handle_assembled_query/async_response', '_QueryResponse.add_mcast_question_response/'
        '_has_mcast_record_in_last_second/answers', 'zeroconf._handlers.multicast_outgoing_queue.MulticastOutgoingQueue.async_add/async_ready/'
        '_remove_answers_from_queue', 'zeroconf._core.Zeroconf.async_send/async_send_with_transport', 'answers.construct_outgoing_multicast_answers',
    ],
    'bounds': {'t0': [5000, 2**40], 'gap_ms': [0, 2000], 'jitter': 'every draw over its full interval', 'sighting age ms': [0, 2500], 'queries': '<= 3', 'service TTLs': 'defaults 120 / 4500 (concrete)'},
    'outside': [
        'the one-second rule for records travelling in the additional section (the statement speaks of answers; additionals ride with their answer)',
        'more than 3 queries / trains of more than 3 packets; QU questions and non-5353 sources (C11)',
        'the host hearing its own multicast is modelled in the loopback-* shapes only (instant loop-back); elsewhere sightings are initial cache state',
        'exact upper bound for a timer-released truncated train: checked as last packet + 400 .. + 1000 ms',
        'previous sightings combined with truncated trains (which packet of the train counts as "the query arrived" is not fixed by the statement)',
    ],
    'stubs': env.STUBS,
    'float_sites': [],
    'assumptions': ['CrossHair 0.0.110 / z3 5.1.0', 'timers fire exactly at their deadline'],
}
