"""C20 - record identity: equality, hashing, case / TTL / flush-bit insensitivity.

Engine E1.  Pairs of real record objects whose scalar fields (type, class word with its top bit, TTL,
creation time, SRV priority / weight / port, IPv6 scope id) are independent solver variables for
the two sides; names / rdata strings come from a small vocabulary of spellings (enumerated).  `hash`
inside zeroconf._dns is bound to a recorder so that the *inputs* of each record hash can be compared.
"""
from __future__ import annotations

from typing import Any, Dict, List, Optional, Tuple

from vkit import env
from vkit.runner import Obligation
from zeroconf import _dns as dns
from zeroconf._dns import DNSAddress, DNSHinfo, DNSNsec, DNSPointer, DNSQuestion, DNSRRSet, DNSService, DNSText

PROPERTY = 'C20'

NAMES = {'same': ('alpha.local.', 'alpha.local.'), 'case': ('alpha.local.', 'ALPHA.Local.'), 'diff': ('alpha.local.', 'alpha2.local.')}
KINDS = ['A', 'AAAA', 'PTR', 'TXT', 'SRV', 'HINFO', 'NSEC', 'Q']
V4 = (b'\x0a\x00\x00\x01', b'\x0a\x00\x00\x02')
V6 = (b'\xfe\x80' + b'\x00' * 13 + b'\x01', b'\xfe\x80' + b'\x00' * 13 + b'\x02')


class HashInput(tuple):
    """What a record handed to hash(); compared instead of the integer."""


def _record_hash(obj: Any) -> Any:
    return HashInput(obj)


def scalars(ctx: Any, side: str, kind: str, scope: str) -> Dict[str, Any]:
    s: Dict[str, Any] = {
        'type': ctx.int(f'type_{side}', 0, 65535),
        'class': ctx.int(f'class_{side}', 0, 65535),
        'ttl': ctx.int(f'ttl_{side}', 0, 2**32 - 1),
        'created': ctx.int(f'created_{side}', 1, 2**40),
    }
    if kind == 'SRV':
        for f in ('priority', 'weight', 'port'):
            s[f] = ctx.int(f'{f}_{side}', 0, 65535)
    if kind in ('A', 'AAAA'):
        s['scope'] = ctx.int(f'scope_{side}', 0, 2**32 - 1) if scope[0 if side == 'a' else 1] == 'i' else None
    return s


def build(kind: str, name: str, s: Dict[str, Any], rd: Any) -> Any:
    t, c, ttl, cr = s['type'], s['class'], s['ttl'], s['created']
    if kind == 'Q':
        return DNSQuestion(name, t, c)
    if kind in ('A', 'AAAA'):
        return DNSAddress(name, t, c, ttl, rd, s['scope'], cr)
    if kind == 'PTR':
        return DNSPointer(name, t, c, ttl, rd, cr)
    if kind == 'TXT':
        return DNSText(name, t, c, ttl, rd, cr)
    if kind == 'SRV':
        return DNSService(name, t, c, ttl, s['priority'], s['weight'], s['port'], rd, cr)
    if kind == 'HINFO':
        return DNSHinfo(name, t, c, ttl, rd[0], rd[1], cr)
    return DNSNsec(name, t, c, ttl, rd[0], list(rd[1]), cr)


RDATA = {
    'A': {'same': (V4[0], V4[0]), 'diff': (V4[0], V4[1])},
    'AAAA': {'same': (V6[0], V6[0]), 'diff': (V6[0], V6[1])},
    'PTR': {'same': ('x.alpha.local.', 'x.alpha.local.'), 'case': ('x.alpha.local.', 'X.Alpha.local.'), 'diff': ('x.alpha.local.', 'y.alpha.local.')},
    'TXT': {'same': (b'\x03a=1', b'\x03a=1'), 'diff': (b'\x03a=1', b'\x03A=1')},
    'SRV': {'same': ('h.local.', 'h.local.'), 'case': ('h.local.', 'H.LOCAL.'), 'diff': ('h.local.', 'h2.local.')},
    'HINFO': {'same': (('cpu', 'os'), ('cpu', 'os')), 'diff': (('cpu', 'os'), ('cpu', 'os2')), 'diff2': (('cpu', 'os'), ('cpu2', 'os'))},
    'NSEC': {
        'same': (('alpha.local.', (1, 28)), ('alpha.local.', (28, 1))),
        'diff': (('alpha.local.', (1, 28)), ('alpha.local.', (1,))),
        'diff2': (('alpha.local.', (1,)), ('beta.local.', (1,))),
    },
    'Q': {'same': (None, None)},
}


def make(shape: Dict[str, Any]) -> Any:
    ka, kb, nrel, rrel, scope = shape['a'], shape['b'], shape['name'], shape['rdata'], shape.get('scope', 'nn')

    def fn(ctx: Any) -> None:
        loop = env.begin(ctx, 5)
        dns.hash = _record_hash  # type: ignore[attr-defined]
        try:
            sa, sb = scalars(ctx, 'a', ka, scope), scalars(ctx, 'b', kb, scope)
            na, nb = NAMES[nrel]
            if ka == kb:
                rda, rdb = RDATA[ka][rrel]
            else:
                rda, rdb = RDATA[ka]['same'][0], RDATA[kb]['same'][0]
            a, b = build(ka, na, sa, rda), build(kb, nb, sb, rdb)
            if ctx.twin:
                return
            expected = ka == kb and nrel != 'diff' and not rrel.startswith('diff')
            scal_eq = sa['type'] == sb['type'] and (sa['class'] % 32768) == (sb['class'] % 32768)
            if ka == 'SRV' and kb == 'SRV':
                scal_eq = scal_eq and sa['priority'] == sb['priority'] and sa['weight'] == sb['weight'] and sa['port'] == sb['port']
            if ka in ('A', 'AAAA') and ka == kb:
                if sa['scope'] is None or sb['scope'] is None:
                    scal_eq = scal_eq and (sa['scope'] is None and sb['scope'] is None)
                else:
                    scal_eq = scal_eq and sa['scope'] == sb['scope']
            want = bool(expected) and scal_eq
            ab, ba = (a == b), (b == a)
            ctx.check(bool(ab) == bool(want), f'{ka} == {kb} is {bool(ab)} but identity fields say {bool(want)} (name {nrel}, rdata {rrel})')
            ctx.check(bool(ab) == bool(ba), 'equality is not symmetric')
            ctx.check(a == a and b == b, 'a record is not equal to itself')
            if ab:
                ctx.check(a._hash == b._hash, 'equal records hash different inputs')
            ctx.check(a.unique == (sa['class'] >= 32768), 'cache-flush / QU bit not split from the class word')
            ctx.check(a.class_ == sa['class'] % 32768, 'class not masked to 15 bits')

        finally:
            dns.hash = env._native_hash  # type: ignore[attr-defined]

    return fn


def make_membership(shape: Dict[str, Any]) -> Any:
    """DNSRRSet / suppression follow record identity (concrete structure, symbolic TTLs)."""
    kind, nrel, rrel = shape['a'], shape['name'], shape['rdata']

    def fn(ctx: Any) -> None:
        env.begin(ctx, 5)
        ttl_a = ctx.int('ttl_a', 0, 2**32 - 1)
        ttl_b = ctx.int('ttl_b', 0, 2**32 - 1)
        ua, ub = ctx.int('flush_a', 0, 1), ctx.int('flush_b', 0, 1)
        na, nb = NAMES[nrel]
        rda, rdb = RDATA[kind][rrel]
        t = {'A': 1, 'AAAA': 28, 'PTR': 12, 'TXT': 16, 'SRV': 33, 'HINFO': 13, 'NSEC': 47}[kind]
        ca = 1 + 32768 if ua == 1 else 1
        cb = 1 + 32768 if ub == 1 else 1
        base = {'type': t, 'priority': 0, 'weight': 0, 'port': 80, 'scope': None}
        a = build(kind, na, dict(base, **{'class': ca, 'ttl': ttl_a, 'created': ctx.int('created_a', 1, 2**40)}), rda)
        b = build(kind, nb, dict(base, **{'class': cb, 'ttl': ttl_b, 'created': ctx.int('created_b', 1, 2**40)}), rdb)
        if ctx.twin:
            return
        same = nrel != 'diff' and not rrel.startswith('diff')
        rrset = DNSRRSet([b])
        ctx.check((a in rrset.lookup) == same, 'DNSRRSet membership does not follow record identity')
        ctx.check((a in rrset.lookup_set()) == same, 'DNSRRSet.lookup_set membership does not follow record identity')
        ctx.check((a in {b}) == same and (a in [b]) == same, 'set / list membership does not follow record identity')
        ctx.check(bool(rrset.suppresses(a)) == bool(same and 2 * ttl_b > ttl_a), 'known-answer suppression is not "same record and more than half the TTL"')
        if same:
            ctx.check(hash(a) == hash(b), 'equal records have different hashes')
        if kind == 'NSEC':
            # the identity of a record must not follow later changes of an object the caller handed in (the type list of an NSEC record
            # is the only mutable identity field)
            types = list(rda[1])
            c = DNSNsec(na, t, ca, ttl_a, rda[0], types, 1)
            h0, eq0 = hash(c), (c == a)
            types.append(33)
            types.sort(reverse=True)
            ctx.check(hash(c) == h0 and (c == a) == eq0 and c == a, 'an NSEC record changed identity when the list it was built from was modified afterwards')
        # the record cache: every lookup by record follows record identity, both ways round
        from zeroconf._cache import DNSCache

        for stored, probe in ((b, a), (a, b)):
            cache = DNSCache()
            cache.async_add_records([stored])
            ctx.check((cache.get(probe) is not None) == same, 'DNSCache.get(record) does not follow record identity')
            ctx.check((cache.async_get_unique(probe) is not None) == same, 'DNSCache.async_get_unique(record) does not follow record identity')
            if same:
                got = cache.get(probe)
                ctx.check(got is stored, 'DNSCache.get(record) returned something other than the cached copy')

    return fn


def obligations(tier: str) -> List[Obligation]:
    obs = []
    for k in KINDS:
        rels = list(RDATA[k])
        for nrel in NAMES:
            for rrel in rels:
                if tier == 'quick' and (nrel, rrel) not in (('same', 'same'), ('case', 'same'), ('diff', 'same'), ('same', 'diff'), ('same', 'case'), ('case', 'case')):
                    continue
                scopes = ['nn']
                if k == 'AAAA' and nrel == 'same' and rrel == 'same':
                    scopes = ['nn', 'ni', 'ii', 'in']
                for sc in scopes:
                    shape = {'a': k, 'b': k, 'name': nrel, 'rdata': rrel, 'scope': sc}
                    obs.append(Obligation(f'pair[{k},{k};name={nrel};rdata={rrel};scope={sc}]', make(shape), 'pair', shape, timeout=60))
                if k != 'Q':
                    shape = {'a': k, 'name': nrel, 'rdata': rrel}
                    obs.append(Obligation(f'member[{k};name={nrel};rdata={rrel}]', make_membership(shape), 'member', shape, timeout=60))
    cross = [(a, b) for a in KINDS for b in KINDS if a != b]
    if tier == 'quick':
        cross = [c for i, c in enumerate(cross) if i % 4 == 0]
    for a, b in cross:
        shape = {'a': a, 'b': b, 'name': 'same', 'rdata': 'same'}
        obs.append(Obligation(f'pair[{a},{b}]', make(shape), 'cross', shape, timeout=60))
    return obs


META = {
    'explanation': 'For every ordered pair of record kinds (plus questions) and every spelling relation of owner name and rdata from a '
    'small vocabulary, two real record objects are built whose type, class word, TTL, creation time, SRV numbers and scope id are '
    'independent z3 integers; CrossHair exhausts __eq__/_eq/_dns_entry_matches and the oracle "equal iff identity fields agree, '
    'equal implies equal hash inputs, symmetric, reflexive".  Membership obligations run DNSRRSet and set/dict lookups with real hashes.',
    'functions': [
        'zeroconf._dns.DNSEntry.__init__/_set_class/_dns_entry_matches', 'DNSQuestion.__eq__/__hash__',
        'DNSAddress/DNSHinfo/DNSPointer/DNSText/DNSService/DNSNsec .__init__/__eq__/_eq/__hash__',
        'DNSRRSet.lookup/lookup_set/suppresses',
    ],
    'bounds': {'type': [0, 65535], 'class word': [0, 65535], 'ttl': [0, 2**32 - 1], 'created': [1, 2**40], 'srv fields': [0, 65535], 'scope id': 'None or 0..2^32-1'},
    'outside': ['strings other than the listed spellings (names, alias, server, text, cpu/os, next name, rdtypes lists)', 'non-ASCII case folding'],
    'stubs': env.STUBS + ['C20 pair obligations: `hash` in zeroconf._dns returns its argument tuple (inputs compared instead of the integer)'],
    'float_sites': ['DNSRRSet.suppresses: record.ttl / 2 (exact for integers below 2^53)'],
    'assumptions': ['CrossHair 0.0.110 / z3 5.1.0'],
}
