#!/usr/bin/env python3
"""tools/prof.py <ID> <obligation-regex> [tier]: run one obligation in-process under cProfile (development aid)."""
import cProfile, importlib, pstats, re, sys, os
sys.path.insert(0, os.path.dirname(os.path.dirname(os.path.abspath(__file__))))
pid, rx = sys.argv[1], sys.argv[2]
tier = sys.argv[3] if len(sys.argv) > 3 else 'quick'
mod = importlib.import_module(f'props.{pid.lower()}')
ob = [o for o in mod.obligations(tier) if re.search(rx, o.oid)][0]
ob.timeout = float(os.environ.get("PROF_TIMEOUT", ob.timeout)); print(ob.oid)
from vkit import runner
class Conn:
    def send(self, r): print(r)
    def close(self): pass
pr = cProfile.Profile()
pr.enable()
runner._sx_worker(ob, False, [], Conn())
pr.disable()
pstats.Stats(pr).sort_stats('cumulative').print_stats(45)
