"""Symbolic packets: opaque rdata of symbolic length, snapshots of every datagram the real
DNSOutgoing.packets() builds (as element lists), and an independent reader of those element lists
(header, entries, names through compression pointers) that works with symbolic sizes and offsets.
"""
from __future__ import annotations

from typing import Any, Dict, List, Optional, Tuple

from . import wire


class Blob(bytes):
    """Opaque octets whose length is a (possibly symbolic) integer."""

    n: Any = 0

    def __new__(cls, n: Any) -> 'Blob':
        o = bytes.__new__(cls, b'')
        o.n = n
        return o

    def __len__(self) -> Any:  # type: ignore[override]
        return self.n


class Snapshot:
    def __init__(self, data: List[bytes], size: Any, names: Dict[str, Any]) -> None:
        self.data, self.size, self.names = list(data), size, dict(names)


def run_packets(out: Any) -> List[Snapshot]:
    """Runs the real packets() and returns one snapshot per datagram built."""
    from zeroconf._protocol.outgoing import DNSOutgoing

    snaps: List[Snapshot] = []
    orig = DNSOutgoing._reset_for_next_packet

    def reset(self: Any) -> None:
        snaps.append(Snapshot(self.data, self.size, self.names))
        orig(self)

    DNSOutgoing._reset_for_next_packet = reset  # type: ignore[method-assign]
    try:
        packets = out.packets()
    finally:
        DNSOutgoing._reset_for_next_packet = orig  # type: ignore[method-assign]
    snaps.append(Snapshot(out.data, out.size, out.names))
    assert len(packets) == len(snaps), (len(packets), len(snaps))
    return snaps


def elem_len(d: bytes) -> Any:
    if isinstance(d, wire.Tok):
        return d.width
    if isinstance(d, Blob):
        return d.n
    return len(d)


def sym_eq(a: Any, b: Any) -> Any:
    """a == b for offsets that are integers or linear solver terms: decided by term simplification where possible
    (offsets after a blob are `constant + blob length`; their difference simplifies to a number), without a solver call."""
    import sys

    if 'crosshair.core' not in sys.modules:
        return a == b

    def go() -> Any:
        import z3

        av, bv = getattr(a, 'var', None), getattr(b, 'var', None)
        if av is None and bv is None:
            return bool(a == b)
        d = z3.simplify((av if av is not None else z3.IntVal(int(a))) - (bv if bv is not None else z3.IntVal(int(b))))
        if z3.is_int_value(d):
            return d.as_long() == 0
        return None

    r = _untraced(go)
    return (a == b) if r is None else r


def _linear(x: Any) -> Optional[Tuple[int, Dict[str, int]]]:
    """(constant, {variable name: coefficient}) of an integer or a linear solver term; None if it is not linear.  Untraced use only."""
    import z3

    v = getattr(x, 'var', None)
    if v is None:
        return (int(x), {}) if isinstance(x, int) else None

    def walk(e: Any, mult: int, acc: List[Any]) -> bool:
        if z3.is_int_value(e):
            acc[0] += mult * e.as_long()
            return True
        if z3.is_const(e) and e.decl().kind() == z3.Z3_OP_UNINTERPRETED:
            acc[1][str(e)] = acc[1].get(str(e), 0) + mult
            return True
        if z3.is_add(e):
            return all(walk(c, mult, acc) for c in e.children())
        if z3.is_sub(e):
            ch = e.children()
            return walk(ch[0], mult, acc) and all(walk(c, -mult, acc) for c in ch[1:])
        if z3.is_mul(e) and len(e.children()) == 2 and z3.is_int_value(e.children()[0]):
            return walk(e.children()[1], mult * e.children()[0].as_long(), acc)
        return False

    acc: List[Any] = [0, {}]
    return (acc[0], {k: c for k, c in acc[1].items() if c != 0}) if walk(z3.simplify(v), 1, acc) else None


def _cmp_linear(a: Optional[Tuple[int, Dict[str, int]]], b: Optional[Tuple[int, Dict[str, int]]]) -> Optional[bool]:
    """Equality of two linear forms over variables that are all >= 0 (blob lengths): True / False when it holds for every
    value, None when it depends on the values."""
    if a is None or b is None:
        return None
    k = a[0] - b[0]
    co = dict(a[1])
    for v, c in b[1].items():
        co[v] = co.get(v, 0) - c
    co = {v: c for v, c in co.items() if c != 0}
    if not co:
        return k == 0
    if all(c > 0 for c in co.values()) and k > 0:
        return False
    if all(c < 0 for c in co.values()) and k < 0:
        return False
    return None


class Reader:
    """Reads one datagram given as the element list the encoder produced."""

    def __init__(self, snap: Snapshot, ctx: Any) -> None:
        self.ctx = ctx
        self.data = snap.data
        self.starts: List[Any] = []
        pos: Any = 0
        for d in self.data:
            self.starts.append(pos)
            pos = pos + elem_len(d)
        self.length = pos

    def header(self) -> List[Any]:
        return [d.value for d in self.data[:6]]  # type: ignore[attr-defined]

    def index_at(self, offset: Any) -> Optional[int]:
        """Index of the (last) element starting at `offset` (zero-length elements share a start)."""
        import sys

        if 'crosshair.core' in sys.modules:
            # decide the whole scan outside the tracer from the linear forms of the offsets (blob lengths are >= 0);
            # only if some comparison depends on the values fall back to the comparison-by-comparison scan
            def scan() -> Any:
                if getattr(self, '_lin', None) is None:
                    self._lin = [_linear(st) for st in self.starts]
                lo = _linear(offset)
                found = None
                for i, ls in enumerate(self._lin):
                    r = _cmp_linear(ls, lo)
                    if r is None:
                        return 'undecided'
                    if r:
                        found = i
                return found

            r = _untraced(scan)
            if not (isinstance(r, str) and r == 'undecided'):
                return r
        found = None
        for i, st in enumerate(self.starts):
            if sym_eq(st, offset):
                found = i
        return found

    def read_name(self, i: int, depth: int = 0) -> Tuple[Optional[List[bytes]], int]:
        """Labels of the name whose encoding starts at element i; returns (labels or None if malformed, next element index)."""
        labels: List[bytes] = []
        first_end: Optional[int] = None
        hops = 0
        while True:
            if i >= len(self.data) or not isinstance(self.data[i], wire.Tok) or self.data[i].width != 1:  # type: ignore[attr-defined]
                return None, i
            v = self.data[i].value  # type: ignore[attr-defined]
            if v == 0:
                return labels, (first_end if first_end is not None else i + 1)
            if v >= 0xC0:
                if i + 1 >= len(self.data) or not isinstance(self.data[i + 1], wire.Tok):
                    return None, i
                target = (v - 0xC0) * 256 + self.data[i + 1].value  # type: ignore[attr-defined]
                if first_end is None:
                    first_end = i + 2
                if not (target < self.starts[i]):
                    return None, first_end  # pointers must point strictly backwards
                j = self.index_at(target)
                hops += 1
                if j is None or hops > 20:
                    return None, first_end
                i = j
                continue
            if v >= 0x40:
                return None, i
            if i + 1 >= len(self.data):
                return None, i
            lab = self.data[i + 1]
            if isinstance(lab, (wire.Tok, Blob)) or len(lab) != v:
                return None, i
            labels.append(bytes(lab))
            i += 2

    def entries(self, nq: int, nrec: int) -> List[Dict[str, Any]]:
        """Walks nq questions and nrec records; rdata is skipped by its RDLENGTH."""
        out: List[Dict[str, Any]] = []
        i = 6
        for k in range(nq + nrec):
            labels, j = self.read_name(i)
            ent: Dict[str, Any] = {'name': labels, 'question': k < nq, 'start': i}
            if labels is None or j + 1 >= len(self.data):
                ent['malformed'] = True
                out.append(ent)
                return out
            ent['type'] = self.data[j].value  # type: ignore[attr-defined]
            ent['class'] = self.data[j + 1].value  # type: ignore[attr-defined]
            if k < nq:
                i = j + 2
            else:
                ent['ttl'] = self.data[j + 2].value  # type: ignore[attr-defined]
                rdlen = self.data[j + 3].value  # type: ignore[attr-defined]
                ent['rdlength'] = rdlen
                ent['rdata_index'] = j + 4
                end = self.starts[j + 3] + 2 + rdlen
                nxt = None
                for m in range(j + 4, len(self.data) + 1):
                    st = self.starts[m] if m < len(self.data) else self.length
                    if sym_eq(st, end):
                        nxt = m  # keep the last match: zero-length rdata shares its start with what follows
                    elif nxt is not None:
                        break  # starts only grow: past the run of elements sharing this start nothing can match
                if nxt is None:
                    ent['malformed'] = True
                    out.append(ent)
                    return out
                ent['rdata_end'] = nxt
                i = nxt
            out.append(ent)
        self.end_index = i
        return out


def name_labels(name: str) -> List[bytes]:
    if name.endswith('.'):
        name = name[:-1]
    return [p.encode('utf-8') for p in name.split('.')]


class OpaqueText(str):
    """What decoding an opaque blob yields: an abstract label / string that remembers its octet length."""

    octets: Any = 0

    def __new__(cls, octets: Any) -> 'OpaqueText':
        o = str.__new__(cls, '<opaque>')
        o.octets = octets
        return o


class OpaqueSlice:
    """data[a:b] when the range is exactly one opaque blob."""

    def __init__(self, n: Any) -> None:
        self.n = n

    def decode(self, *a: Any) -> OpaqueText:
        return OpaqueText(self.n)

    def __len__(self) -> Any:
        return self.n


def tok_octet(e: Any, k: Any) -> Any:
    """Octet k (big endian) of a value token."""
    if e.width == 1:
        return e.value
    if type(e.value) is int:
        return (e.value >> (8 * (e.width - 1 - k))) & 0xFF
    return (e.value // (256 ** (e.width - 1 - k))) % 256


def is_symbolic(x: Any) -> bool:
    import sys

    if 'crosshair.core' not in sys.modules:
        return False
    from crosshair.tracers import NoTracing

    with NoTracing():
        return hasattr(x, 'var')


def concretize(x: Any) -> Any:
    """Fork on the value of a symbolic integer (no-op for concrete values / in native replay)."""
    import sys

    if 'crosshair.core' not in sys.modules:
        return x
    from crosshair.core import realize
    from crosshair.tracers import NoTracing

    with NoTracing():  # type() / isinstance() are intercepted while tracing
        symbolic = hasattr(x, 'var')
    return realize(x) if symbolic else x


OCTET_TABLE: List[List[Any]] = []  # octet lists of opaque texts created on the current path


class SymOctets:
    """data[a:b] when some octets are solver terms: kept as a list of octet terms."""

    def __init__(self, octs: List[Any]) -> None:
        self.octs = octs

    def decode(self, encoding: str = 'utf-8', errors: str = 'strict') -> str:
        if errors != 'replace':
            # strict decoding fails on octets that can never occur in UTF-8
            for o in self.octs:
                if o == 0xFF or o == 0xFE:
                    raise UnicodeDecodeError('utf-8', b'', 0, 1, 'invalid start byte (symbolic octet)')
        # the text is opaque; its real content is an index into OCTET_TABLE so that names assembled by
        # the decoder with "".join can be mapped back to the octets they came from
        OCTET_TABLE.append(self.octs)
        return f'<{len(OCTET_TABLE) - 1}>'

    def __len__(self) -> int:
        return len(self.octs)

    def __eq__(self, other: Any) -> Any:
        o = other.octs if isinstance(other, SymOctets) else list(other)
        return len(o) == len(self.octs) and all(a == b for a, b in zip(self.octs, o))

    def __hash__(self) -> int:
        return 0

    def __iter__(self) -> Any:
        return iter(self.octs)

    def __getitem__(self, k: Any) -> Any:
        r = self.octs[k]
        return SymOctets(r) if isinstance(k, slice) else r


_NT: List[Any] = []  # [NoTracing] once the symbolic engine is loaded (an import statement per call is traced and slow)


def _untraced(fn: Any) -> Any:
    if not _NT:
        import sys

        if 'crosshair.core' not in sys.modules:
            return fn()
        from crosshair.tracers import NoTracing

        _NT.append(NoTracing)
    with _NT[0]():
        return fn()


def _native_starts(elems: List[Any]) -> Optional[List[int]]:
    """Concrete start offsets of a fixed layout (computed outside the tracer)."""

    def go() -> Optional[List[int]]:
        out, pos = [], 0
        for e in elems:
            out.append(pos)
            if isinstance(e, wire.Tok):
                pos += e.width
            elif type(e) is bytes:
                pos += len(e)
            else:
                return None  # an engine-level bytes value (e.g. text encoded while tracing): general path
        out.append(pos)
        return out

    return _untraced(go)


def _native_locate(starts: Any, elems: List[Any], off: Any) -> Optional[Tuple[int, int]]:
    import bisect

    def go() -> Optional[Tuple[int, int]]:
        o = int(off)
        if o < 0 or o >= starts[-1]:
            return None
        i = bisect.bisect_right(starts, o) - 1
        while i + 1 < len(starts) - 1 and starts[i + 1] == o:  # skip zero-width elements
            i += 1
        return i, o - starts[i]

    return _untraced(go)


def _native_get(starts: Any, elems: List[Any], key: Any) -> Optional[int]:
    """Octet at a concrete offset when it is a concrete value (plain bytes or a concrete token): decided
    wholly outside the tracer.  None -> take the general path."""
    import bisect

    def go() -> Optional[int]:
        if type(key) is not int or key < 0 or key >= starts[-1]:
            return None
        i = bisect.bisect_right(starts, key) - 1
        e = elems[i]
        k = key - starts[i]
        if isinstance(e, wire.Tok):
            if type(e.value) is not int:
                return None
            return (e.value >> (8 * (e.width - 1 - k))) & 0xFF
        return bytes.__getitem__(e, k)

    return _untraced(go)


def _native_slice(starts: Any, elems: List[Any], a: Any, b: Any) -> Optional[bytes]:
    """data[a:b] for concrete bounds over a stretch of concrete octets, decided outside the tracer (None -> general path)."""
    import bisect

    def go() -> Optional[bytes]:
        if type(a) is not int or type(b) is not int or a < 0:
            return None
        hi = min(b, starts[-1])
        if a >= hi:
            return b''
        out = bytearray()
        i = bisect.bisect_right(starts, a) - 1
        pos = a
        while pos < hi:
            e = elems[i]
            k = pos - starts[i]
            if isinstance(e, wire.Tok):
                if type(e.value) is not int:
                    return None
                while k < e.width and pos < hi:
                    out.append((e.value >> (8 * (e.width - 1 - k))) & 0xFF)
                    k += 1
                    pos += 1
            else:
                take = bytes.__getitem__(e, slice(k, k + (hi - pos)))
                out += take
                pos += len(take)
            i += 1
        return bytes(out)

    return _untraced(go)


class SymPacket:
    """A datagram as the element list produced by the encoder, readable like `bytes` by the real decoder:
    len(), integer indexing (octets of value tokens are arithmetic terms) and slicing."""

    def __init__(self, elements: List[bytes]) -> None:
        self.elems = [e for e in elements]
        self.starts: List[Any] = []
        pos: Any = 0
        for e in self.elems:
            self.starts.append(pos)
            pos = pos + elem_len(e)
        self.length = pos
        self.fixed_layout = not any(isinstance(e, Blob) for e in self.elems)
        self._cstarts: Optional[List[int]] = None
        if self.fixed_layout:
            self._cstarts = _native_starts(self.elems)

    def __len__(self) -> Any:
        return self.length

    def _locate(self, off: Any) -> Tuple[int, Any]:
        if self.fixed_layout:
            # every element has a concrete width: fork once on the value of a symbolic offset (at most
            # `length` values) instead of deciding one comparison per element with the solver
            off = concretize(off)
            if self._cstarts is not None:
                hit = _native_locate(self._cstarts, self.elems, off)
                if hit is None:
                    raise IndexError('index out of range')
                return hit
        for i, e in enumerate(self.elems):
            n = elem_len(e)
            if self.starts[i] <= off and off < self.starts[i] + n:
                return i, off - self.starts[i]
        raise IndexError('index out of range')

    def __getitem__(self, key: Any) -> Any:
        if isinstance(key, slice):
            return self._slice(key.start or 0, key.stop if key.stop is not None else self.length)
        if self._cstarts is not None:
            fast = _native_get(self._cstarts, self.elems, key)
            if fast is not None:
                return fast
        if key < 0:
            raise IndexError('negative index')
        i, k = self._locate(key)
        e = self.elems[i]
        if isinstance(e, wire.Tok):
            return tok_octet(e, k)
        if isinstance(e, Blob):
            raise AssertionError('reading inside an opaque blob')
        return e[k]

    def _slice(self, a: Any, b: Any) -> Any:
        if self._cstarts is not None:
            fast = _native_slice(self._cstarts, self.elems, a, b)
            if fast is not None:
                return fast
        if b > self.length:
            b = self.length
        if not (a < b):
            return b''
        i, k = self._locate(a)
        e = self.elems[i]
        if isinstance(e, Blob):
            if k == 0 and b - a == e.n:
                return OpaqueSlice(e.n)
            raise AssertionError('partial read of an opaque blob')
        out = []
        pos = a
        if any(isinstance(x, wire.Tok) and x.symbolic for x in self.elems):
            # symbolic octets in the datagram: return the range as a list of octet terms
            octs = []
            while pos < b:
                octs.append(self[pos])
                pos = pos + 1
            if not any(is_symbolic(o) for o in octs):
                return bytes(octs)  # a concrete stretch (e.g. the labels of a fixed question) decodes to real text
            return SymOctets(octs)
        while pos < b:
            i, k = self._locate(pos)
            e = self.elems[i]
            if isinstance(e, wire.Tok):
                out.append(bytes([tok_octet(e, k)]))
                pos = pos + 1
            elif isinstance(e, Blob):
                raise AssertionError('opaque blob inside a concrete slice')
            else:
                take = e[k: k + (b - pos)]
                out.append(bytes(take))
                pos = pos + len(take)
        return b''.join(out)
