#!/bin/sh
# tools/seed_check.sh <seed dir> <PID> [tier]: apply the seeded patch to /repo, run the check, undo the patch.
d=$1; pid=$2; tier=${3:-quick}
git -C /repo apply "$d/patch.diff" || { echo "PATCH DOES NOT APPLY: $d"; exit 2; }
bk=$(mktemp -d); cp -a /verif/evidence/. $bk/   # evidence files must only ever come from the unchanged tree
( cd /verif && ./check $pid --tier $tier 2>&1 | grep -E "^VIOLATION|^KNOWN|^HARNESS|^C[0-9]+ \[" | head -${4:-5} )
git -C /repo apply -R "$d/patch.diff"
rm -rf /verif/evidence/C*.json; cp -a $bk/. /verif/evidence/; rm -rf $bk
