#!/usr/bin/env python3
"""tools/seed_matrix_par.py [-j N] [seed ...]: like seed_matrix.py, but every seeded change is applied to its own scratch
worktree of /repo HEAD under /tmp/seedmx and the checks run against that copy (VERIF_REPO_SRC) with their own evidence
directory (VERIF_EVIDENCE_DIR), N seeds side by side.  /repo and /verif/evidence are not touched.  Writes seeded/<id>/meta.json."""
import json, os, re, shutil, subprocess, sys, time
from concurrent.futures import ThreadPoolExecutor

VERIF = os.path.dirname(os.path.dirname(os.path.abspath(__file__)))
sys.path.insert(0, os.path.join(VERIF, 'tools'))
EXTRA = {'C01': ['C14'], 'C13-1': ['C18'], 'C14': ['C01'], 'C07': ['C08'], 'C07-3': ['C10', 'C04'], 'C07-4': ['C04'], 'C20-5': ['C05'], 'C18-4': ['C13'], 'C19-6': ['C09'], 'C09-6': ['C11'], 'C19-5': ['C18'], 'C07-5': ['C03'], 'C13-5': ['C13'], 'C20-7': ['C01'], 'C03-6': ['C08'], 'C16-5': ['C10'], 'C18-3': ['C05', 'C06'], 'C08-5': ['C20'], 'C12-5': ['C05'], 'C15-4': ['C12'], 'C15-6': ['C01'], 'C11-6': ['C02'], 'C05-7': ['C01'], 'C01-8': ['C13'], 'C03-8': ['C08'], 'C20-9': ['C08'], 'C12-7': ['C05'], 'C09-4': ['C03'], 'C08-7': ['C03'], 'C03-7': ['C08'], 'C04-6': ['C15']}
args = sys.argv[1:]
jobs = 4
if args[:1] == ['-j']:
    jobs = int(args[1]); args = args[2:]
seeds = [s for s in sorted(os.listdir(os.path.join(VERIF, 'seeded'))) if not args or s in args]
nproc = max(2, 16 // jobs)


def one(sd):
    d = os.path.join(VERIF, 'seeded', sd)
    pid = sd.split('-')[0]
    checks = [pid] + EXTRA.get(sd, EXTRA.get(pid, []))
    wt = f'/tmp/seedmx/{sd}'
    shutil.rmtree(wt, ignore_errors=True)
    subprocess.run(['git', '-C', '/repo', 'worktree', 'prune'], capture_output=True)
    if subprocess.run(['git', '-C', '/repo', 'worktree', 'add', '--detach', wt, 'HEAD'], capture_output=True).returncode != 0:
        return sd, None, 'worktree failed'
    results = {}
    try:
        if subprocess.run(['git', '-C', wt, 'apply', os.path.join(d, 'patch.diff')], capture_output=True).returncode != 0:
            return sd, None, 'PATCH DOES NOT APPLY'
        env = dict(os.environ, VERIF_REPO_SRC=f'{wt}/src', VERIF_EVIDENCE_DIR=f'{wt}/_evidence')
        for c in checks:
            t0 = time.time()
            cp = subprocess.run(['./check', c, '--tier', 'quick', '--nproc', str(nproc)], cwd=VERIF, capture_output=True, text=True, env=env)
            viol = re.findall(r'^VIOLATION property=(\S+) replay=\S*/([^/]+)\.json', cp.stdout, re.M)
            results[c] = {'exit': cp.returncode, 'violations': [v[1] for v in viol], 'wall_s': round(time.time() - t0, 1)}
    finally:
        subprocess.run(['git', '-C', '/repo', 'worktree', 'remove', '--force', wt], capture_output=True)
        shutil.rmtree(wt, ignore_errors=True)
    notes = open(os.path.join(d, 'notes.md')).read() if os.path.exists(os.path.join(d, 'notes.md')) else ''
    ver = json.load(open(os.path.join(d, 'verify.json'))) if os.path.exists(os.path.join(d, 'verify.json')) else {}
    caught = [c for c, r in results.items() if r['exit'] == 1 and r['violations']]
    first = notes.strip().split('\n')
    meta = {
        'seed': sd, 'breaks_property': pid,
        'origin': 'independent sub-agent given only the property text and a scratch worktree of /repo (tools/seed_prompt.py)',
        'needs_to_manifest': next((l for l in first if l and not l.startswith('#')), '')[:600],
        'independently_confirmed': ver,
        'what_i_ran': 'tools/seed_verify.sh (scratch worktree of /repo HEAD: patch applies, demo.py exits 1 with it and 0 without, full test suite passes with it); '
                      'tools/seed_matrix_par.py (scratch worktree of /repo HEAD with the patch applied, ./check <id> --tier quick against that copy) - equivalent to git -C /repo apply / ./check / git apply -R, which tools/seed_matrix.py does',
        'repo_head': subprocess.run(['git', '-C', '/repo', 'rev-parse', '--short', 'HEAD'], capture_output=True, text=True).stdout.strip(),
        'checks': results, 'caught_by': caught,
    }
    json.dump(meta, open(os.path.join(d, 'meta.json'), 'w'), indent=1)
    return sd, caught, {c: r['violations'][:3] for c, r in results.items()}


os.makedirs('/tmp/seedmx', exist_ok=True)
with ThreadPoolExecutor(jobs) as ex:
    for sd, caught, info in ex.map(one, seeds):
        print(sd, 'caught by', caught if caught is not None else 'ERROR', info, flush=True)
shutil.rmtree('/tmp/seedmx', ignore_errors=True)
