#!/usr/bin/env python3
"""Regenerates /verif/MANIFEST.json from the table below (kept in one place so that it stays valid)."""
import json
import os

VERIF = os.path.dirname(os.path.dirname(os.path.abspath(__file__)))

E1 = 'bounded symbolic execution of the real classes (CrossHair 0.0.110 / z3): shapes enumerated, scalars solver-decided, native replay of every counterexample'
E2 = 'SMT lemmas over kernels translated from /repo source on every run (z3), native replay of every model'

CLAIMED = {
    # id: (design ref, technique, level text, level note)
    'C01': ('DESIGN.md 4 C01', E1,
            'Field round trip real encoder -> real decoder (and an independent reader) of a message holding one record of every kind, with every TTL, class word, flush / QU bit, id and SRV number symbolic, over five name sets; kernel lemmas on the real _write_utf / _decode_labels_at_offset (label of symbolic length 1..300), _write_link_to_name (pointer to any offset 12..8950), character-strings 0..255 octets, NSEC bitmap for every type 0..255; decoded records carry the receive time and (AAAA only) the scope id of their datagram; E2 lemmas: the real 16-bit / 8-bit packers with their pre-packed tables equal the big-endian encoding for every value.',
            'Trusted: as C05; packer stand-ins (vkit/wire.py), SymPacket view of the element list (vkit/pkt.py), bit-operation handlers. Label contents / suffix-sharing beyond the name sets are not symbolic; splitting and rollback are C14.'),
    'C02': ('DESIGN.md 4 C02', E1,
            'Totality, linear work budget, name length and faithfulness against a strict RFC 1035 reader of the real DNSIncoming on datagrams whose payload octets are all solver variables (12 + P octets, P <= 5 quick / 7 thorough; record templates with symbolic owner octets, RDLENGTH and rdata octets), every tiling of labels / pointers / fields exhausted; plus enumerated deep compression graphs (3..4470 pointer cells in a row, forward and backward, id / label octet / TTL and one pointer octet symbolic), names of 253 / 254 / 300 characters reached through a pointer with a symbolic low octet, two questions with symbolic type / class words (per-question and message-level QU flag), and a decode-error memo pre-filled with 511..5000 entries.',
            'Trusted: as C01. Datagrams with more than 7 free octets are reached only through the enumerated pointer-chain shapes (these found the RecursionError of the original tree, since fixed); label text is opaque (octets compared).'),
    'C03': ('DESIGN.md 4 C03', E1,
            'Answer sets, per-answer additionals, TTLs and flush marking of QueryHandler.async_response - and the answers actually transmitted when the same query goes through the real listener and queues - equal a declarative reference responder for every enumerated (registry script, questions, known answers) shape, for all service TTLs 1..2^31-1 and known-answer TTLs 0..2^32-1 (half-TTL boundary solver-decided).',
            'Trusted: as C05 plus the reference responder in vkit/responder.py. Question types and names are enumerated, not symbolic.'),
    'C07': ('DESIGN.md 4 C07', E1,
            'Smallest instance of the property only: two complete socket-less instances on one fake loop (one registers then unregisters a service, one browses and resolves the service from its Added callback) joined by a link delivering every multicast datagram to both hosts; the registration instant and the delay (0..100 ms) of one or two datagrams are solver variables and one chosen datagram (each of the first ten, each goodbye) is dropped. Convergence (one Added, resolvable incl. TXT, one Removed) within 6 s / 3 s is decided for every value. Further concrete scenarios with the same symbolic instants: a datagram duplicated 0..100 ms later, withdrawal by async_close, an update (new port / TXT), a third host that browses and owns a service.',
            'Trusted: as C05 plus the link model in props/c07.py. Trusted also: the link model in vkit/link.py. Everything larger - 4..5 hosts, several types, arbitrary reordering, all delays symbolic at once - is outside the claim; the mechanisms are decided separately under C03, C04, C06, C08, C09, C10, C13, C18.'),
    'C08': ('DESIGN.md 4 C08', E1,
            'Three complete goodbyes 125 ms apart (address / NSEC only when no remaining service shares the host) and no withdrawn record with TTL > 0 after the third, for a query and the withdrawal at independent symbolic offsets 0..2000 ms in either order, all jitter draws and sighting ages; unregister and unregister-all, 1..2 services.',
            'Trusted: as C05 plus timers firing exactly on time. close() of the whole instance is C17.'),
    'C09': ('DESIGN.md 4 C09', E1,
            'Probe schedule and contents, conflict outcome (exception / first free -N), announcement schedule, record set, TTLs and flush marking of the real async_register_service coroutine for all start instants, service TTLs, conflict arrival offsets 0..1000 ms and conflict TTLs, over enumerated address mixes / taken-name chains.',
            'Trusted: as C05 plus asyncio.timeout/Event/sleep running on the fake loop. A conflict arriving exactly at the last check instant is accepted either way.'),
    'C10': ('DESIGN.md 4 C10', E1,
            'Start-up schedule, justification of every refresh query, the minimum spacing, "no record more than delay overdue" and timer liveness after every timer step of the real QueryScheduler, for all learn instants (between enumerated timers), TTLs 1..2^31-1 and the start-up draw; up to three records / two types.',
            'Trusted: as C05; the per-record refresh chain model in props/c10.py; float sites 0.1*ttl and the 1e-6 clock resolution treated as exact reals (lemmas listed in the evidence).'),
    'C11': ('DESIGN.md 4 C11', E1,
            'Destination, socket, id, flags, question echo and answer sets of the unicast / immediate multicast / delayed multicast transmissions for one query (<= 2 questions, QU/QM, probe) match the statement for every source port 0..65535, query id, sighting age and cached TTL; header id, flags, counts and class words of the real packets() read back through value-carrying packer stand-ins for symbolic id / class / flush bit.',
            'Trusted: as C05; packer stand-ins (vkit/wire.py) preserve widths and values. One or two registered services; IPv4 sockets, plus dual-stack shapes (one IPv4 and one IPv6 socket, IPv6 source with symbolic flow / scope through the real datagram_received).'),
    'C12': ('DESIGN.md 4 C12', E1,
            'Send times of every multicast answer, for enumerated query sequences (<= 3 queries, probes, truncated trains), lie inside the per-query windows of the statement for all arrival gaps 0..2000 ms, all jitter draws and all sighting ages 0..2500 ms; liveness, safety, economy and batch uniqueness per obligation.',
            'Trusted: as C05 plus timers firing exactly on time. The one-second rule is checked for answers, not for records riding in the additional section. Own multicast is heard only in the loopback-* shapes.'),
    'C04': ('DESIGN.md 4 C04', E1,
            'Per (type, instance) Added/Removed alternation, equality of the reported-live set with the pointer set of a section-10 model and of the real cache after every event, and visibility of the triggering datagram from inside add_service, for enumerated histories (<= 4 events incl. purge ticks, browser created early or late) with all TTLs and gaps symbolic.',
            'Trusted: as C05. In-loop browser flavour only (the threaded ServiceBrowser hands the same events to a queue).'),
    'C05': ('DESIGN.md 4 C05', E1,
            'Every lookup path of DNSCache agrees with a list-based RFC 6762 section 10 model after every event of each enumerated history '
            '(<= 4 events, <= 4 records per datagram), for all TTLs 0..2^32-1, all start instants and all gaps (solver-decided per path); purge reports exactly the elapsed records.',
            'Trusted: CPython, CrossHair path exhaustion, z3, vkit environment stubs (fake loop/clock), the reference model in vkit/model.py. Structure (which records, how many datagrams) is enumerated, not solved for.'),
    'C06': ('DESIGN.md 4 C06', E1,
            'Clause-by-clause listener contract and cache effect of one response datagram after <= 2 prior datagrams, for all TTLs / instants / gaps; CONFIRMED obligations are exhausted path trees.',
            'Trusted: as C05. Datagrams are built as DNSIncoming objects directly (codec covered by C01/C02).'),
    'C13': ('DESIGN.md 4 C13', E1,
            'Known answers attached by generate_service_query and ServiceInfo._generate_request_query are exactly the matching records with more than half their TTL left (ages / TTLs symbolic), stamped with the query instant; _write_ttl writes floor(remaining seconds) for all created / ttl / now; duplicate-question suppression between two askers (own query or question heard as responder) decided for every gap 0..2500 ms and known-answer relation; for caches of 60..110 pointer records learned in groups (one symbolic age / TTL per group) the real bucketing and packets() splitting are read back: every fresh record listed once with its remaining TTL, TC on all datagrams but the last, questions never repeated.',
            'Trusted: as C05; caches of <= 4 records with per-record symbolic ages, or up to about 110 records in groups. QU-then-QM of browsers is decided in C10, the lookup schedule in C18, splitting in general in C14.'),
    'C14': ('DESIGN.md 4 C14', E1,
            'Per datagram built by the real packets(): octets == accounted size <= 8966, <= 1460 unless it holds a single entry, id / flags / TC rule, header counts == entries present, every entry read back (independent reader following compression pointers through symbolic offsets) with its own owner name, type, RDLENGTH and rdata names; over the sequence every entry exactly once in order - for messages of <= 7 entries whose TXT rdata lengths 0..8900 are solver variables.',
            'Trusted: as C01. Entries that cannot fit 8966 octets alone, and hundreds of entries, are outside.'),
    'C15': ('DESIGN.md 4 C15', E1,
            'Nothing escapes the real AsyncListener.datagram_received, and a canary query / announcement delivered afterwards still work, for datagrams whose payload octets are solver variables (plain templates and templates where a valid answerable question precedes the symbolic octets) from every source port, and for the enumerated deep pointer-chain datagrams of C02; oversize guard for every length 0..70000; echo-safety lemma on the real label guards, confirmed on concrete bytes through the real listener.',
            'Trusted: as C02. One adversarial datagram per obligation. Both escaping exceptions named in the property (pointer-chain RecursionError, echo of an invalid-UTF-8 label) were found by these obligations and are repaired by fix: commits (known_findings.json, fixed).'),
    'C16': ('DESIGN.md 4 C16', E1,
            'Metamorphic equivalence on each symbolic path: a history run with every datagram repeated dgap ms later (0..999) and the same history without repeats (identical random draws) produce identical multicast transmissions, browser callbacks and record-listener calls, and identical unicast replies except for a repeated QU reply; offsets, dgap, TTLs, sighting ages symbolic.',
            'Trusted: as C05; datagrams are opaque byte tokens mapped to prebuilt messages (the listener guard and dispatch are the real code); loop-back of the host own multicast only in the loopback-* shapes (copy delivered back to back). One known finding (a duplicated QU query for a record not recently multicast is answered by multicast twice) is listed in known_findings.json.'),
    'C17': ('DESIGN.md 4 C17', E1,
            'After the real AsyncZeroconf.async_close returns - requested at any instant 0..close_max ms into probing / announcing / queued answers / a deferred truncated query / browser start-up / a pending lookup - nothing is transmitted, no callback fires and no leftover timer raises during 3 h of virtual time and further datagrams; sockets closed, registry empty, goodbyes sent for everything registered at the request, second close a no-op.',
            'Trusted: as C05 plus asyncio.gather / wait_for / timeout running on the fake loop. close() from a foreign thread is outside (threads are not symbolically executable). A browser the application created itself and never cancels is covered for transmissions / timers / exceptions.'),
    'C18': ('DESIGN.md 4 C18', E1,
            'Return instant, result, fields (addresses only from records unexpired when read; exactly the unexpired cached addresses when answered from the cache), no transmission when the cache suffices, QU-then-QM, omitted questions and query spacing of the real async_request coroutine for every timeout, every age / TTL of pre-cached records and every arrival offset / TTL of later records, over enumerated cache contents and arrival orders.',
            'Trusted: as C05. Timeout range 200..1000 ms when records are cached or arrive (200..10000 ms otherwise) to keep path trees exhaustible.'),
    'C19': ('DESIGN.md 4 C19', E1,
            'The real service_type_name body on strings with concrete structure and up to 4 (5) free characters over a 15-code-point alphabet, both strict modes: only BadTypeInNameException, accepted => every documented rule holds and the service type is returned, rejected => some rule is violated; templates at the 15/16-character, 63/64-octet and 256/257-character boundaries. TXT properties: encode / library decode / independent RFC 6763 reader agree for enumerated item structures with solver-chosen lengths.',
            'Trusted: CrossHair, z3, the SymStr string model and regex character-class stand-ins (vkit/symstr.py); counterexamples are replayed on the real function with a real str and the real regexes. TXT octet values are concrete.'),
    'C20': ('DESIGN.md 4 C20', E1,
            'Equality / hash-input congruence of all record kinds and questions with type, class word, TTL, created, SRV numbers and scope id as independent solver integers; names and rdata strings from enumerated spellings.',
            'Trusted: CrossHair models of int/tuple equality, z3. Strings are not symbolic.'),
}

NOT_APPLICABLE = {}

PENDING = 'check not built yet in this session (see DESIGN.md section 4 for the planned obligations)'


def main() -> None:
    ids = [json.loads(l)['id'] for l in open(os.path.join(VERIF, 'properties.jsonl'))]
    checks = []
    for pid in ids:
        if pid not in CLAIMED:
            continue
        ref, tech, text, note = CLAIMED[pid]
        checks.append({
            'property_id': pid,
            'quick_cmd': f'./check {pid} --tier quick',
            'thorough_cmd': f'./check {pid} --tier thorough',
            'evidence_file': f'/verif/evidence/{pid}.json',
            'replay_cmd_template': f'./check {pid} --replay {{path}}',
            'engine': 'vkit',
            'level_claimed': {'category': 'other', 'text': text, 'design_ref': ref},
            'level_note': note,
            'technique': tech,
        })
    na = []
    for pid in ids:
        if pid in CLAIMED:
            continue
        na.append({'property_id': pid, 'reason': NOT_APPLICABLE.get(pid, PENDING)})
    manifest = {
        'version': 1,
        'setup_cmd': 'sh setup.sh',
        'hooks': {
            'guard': 'MARGASIOREK_PYTHON_ZEROCONF_VERIF',
            'enable': 'no source hooks: the harnesses rebind clock / randomness / loop names from outside (vkit/env.py); the variable is reserved and unused',
            'baseline_off_cmd': 'cd /repo && /venv/bin/python -m pytest -ra -q -p no:cacheprovider --timeout=900 --continue-on-collection-errors',
            'source_commits': [],
            'add_only': True,
        },
        'engines': [
            {'name': 'vkit', 'path': '/verif/vkit', 'serves_properties': sorted(CLAIMED),
             'kind_free_text': 'E1: CrossHair symbolic execution of the real zeroconf classes with in-harness solver integers; E2: z3 lemmas over kernels translated from the AST of /repo/src; obligation runner with native replay'},
        ],
        'checks': checks,
        'not_applicable': na,
        'notes': 'Exit 3 is a reserved harness-error code (non-reproducing counterexample, vacuous family). Known findings: /verif/known_findings.json.',
    }
    json.dump(manifest, open(os.path.join(VERIF, 'MANIFEST.json'), 'w'), indent=1)
    print('wrote MANIFEST.json with', len(checks), 'checks')


if __name__ == '__main__':
    main()
