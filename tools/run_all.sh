#!/bin/sh
# tools/run_all.sh [quick|thorough] : every claimed check in turn, one summary line each (development aid)
tier=${1:-quick}
cd "$(dirname "$0")/.."
for id in $(python3 -c "import json; print(' '.join(c['property_id'] for c in json.load(open('MANIFEST.json'))['checks']))"); do
  s=$(date +%s)
  out=$(./check $id --tier $tier 2>&1)
  rc=$?
  echo "$id rc=$rc $(($(date +%s)-s))s $(echo "$out" | grep -E "^C[0-9]+ \[" | tail -1)"
  echo "$out" | grep -E "^VIOLATION|^HARNESS|^  inconclusive" | head -5
done
