"""C10 - browser refresh queries, rate limit, liveness.

Engine E1 on the real _ServiceBrowserBase / QueryScheduler / RecordManager on the fake loop.  The loop
is driven timer by timer (a fixed number of steps), so TTLs may be arbitrarily large; learn instants,
TTLs and the start-up jitter are solver variables.  Oracle: a per-record refresh chain written from the
statement (75 %, then +10 % of the TTL after each attempt while that is before expiry, each attempt at
most `delay` late), justification of every query, the rate limit and timer liveness.
"""
from __future__ import annotations

from typing import Any, Dict, List, Optional, Tuple

from vkit import env
from vkit.build import Spec, mk_incoming
from vkit.runner import Obligation
from zeroconf import const
from zeroconf._dns import DNSQuestionType
from zeroconf._services.browser import _ServiceBrowserBase

PROPERTY = 'C10'
T1, T2 = '_http._tcp.local.', '_ipp._tcp.local.'
PTRS = {
    'x': Spec('PTR', T1, alias='X._http._tcp.local.'),
    'y': Spec('PTR', T1, alias='Y._http._tcp.local.'),
    'z': Spec('PTR', T2, alias='Z._ipp._tcp.local.'),
    'z2': Spec('PTR', T1, alias='Z2._http._tcp.local.'),
    'xu': Spec('PTR', T1, alias='x._HTTP._TCP.local.'),  # the record x with its instance name spelled in another case
}
SAME_RECORD = {'xu': 'x'}
TTL_MAX = 2**31 - 1


class Chain:
    """Refresh obligations of one learned pointer record (reference model)."""

    def __init__(self, type_: str, learned: Any, ttl: Any) -> None:
        eff = ttl if ttl >= 1125 else 1125
        self.type, self.ttl = type_, eff
        self.due: Optional[Any] = learned + 750 * eff
        self.expire = learned + 1000 * eff
        self.slack = 0


def make(shape: Dict[str, Any]) -> Any:
    types: List[str] = shape.get('types', [T1])
    delay: int = shape.get('delay', 10000)
    events: List[Tuple[str, str, int]] = shape.get('events', [])  # ('learn'|'refresh'|'goodbye', key, timer steps before)
    ttl_min: int = shape.get('ttl_min', 1125)
    ttl_fixed = shape.get('ttl_fixed')  # concrete TTL(s): idle polls on the way to the 75 % point then do not fork
    steps_after: int = shape.get('steps', 8)
    qtype = shape.get('question_type')
    gap_max: int = shape.get('gap_max', 30000)

    def fn(ctx: Any) -> None:
        t0 = ctx.int('t0', 1000, 2**40)
        loop = env.begin(ctx, t0)
        env.use_token_packets(True)
        zc = env.make_zc(loop)
        callbacks: List[Any] = []

        def on_change(zeroconf: Any, service_type: str, name: str, state_change: Any) -> None:
            callbacks.append((loop.now_ms, service_type, name, state_change))

        browser = _ServiceBrowserBase(zc, list(types), handlers=[on_change], delay=delay, question_type=qtype)
        browser._async_start()
        loop.run_ready()
        sched = browser.query_scheduler
        chains: Dict[str, Chain] = {}
        seen_sends = 0
        send_times: List[Any] = []
        startup_times: List[Any] = []

        def observe(now: Any) -> None:
            """Called after every loop step: account for the queries just sent."""
            nonlocal seen_sends
            log = env.sent_log(zc)
            new, seen_sends = log[seen_sends:], len(log)
            if not new:
                return
            asked = sorted({q.name for s in new for q in s.out.questions})
            for s in new:
                ctx.check(s.multicast, 'browser query not sent to the mDNS group')
                ctx.check(s.out.is_query(), 'browser transmitted something that is not a query')
            if len(startup_times) < 4:
                startup_times.append(now)
                ctx.check(asked == sorted(types), 'a start-up query does not ask for every browsed type')
                want_qu = (qtype is None and len(startup_times) == 1) or qtype is DNSQuestionType.QU
                for s in new:
                    for q in s.out.questions:
                        ctx.check(q.unicast == want_qu, f'start-up query {len(startup_times)}: QU bit wrong')
            else:
                if send_times:
                    ctx.check(now - send_times[-1] >= delay, 'two refresh passes closer together than the configured delay')
                else:
                    ctx.check(now - startup_times[-1] >= delay, 'first refresh pass closer to the last start-up query than the configured delay')
                send_times.append(now)
                for t in asked:
                    justified = False
                    for c in chains.values():
                        if c.type == t and c.due is not None and c.due - c.slack <= now:
                            justified = True
                    ctx.check(justified, f'query for {t} although no learned record of that type is due (old schedule of a refreshed / withdrawn record?)')
                for s in new:
                    for q in s.out.questions:
                        ctx.check(q.unicast == (qtype is DNSQuestionType.QU), 'refresh query has the wrong QU bit')
            # advance the chains of every record whose type was asked and which was due
            if len(startup_times) >= 4 and send_times and send_times[-1] == now:
                for c in chains.values():
                    if c.type in asked and c.due is not None and c.due - c.slack <= now:
                        nxt = now + 100 * c.ttl
                        c.due = nxt if nxt < c.expire else None

        def check_overdue(now: Any) -> None:
            for key, c in chains.items():
                if c.due is not None:
                    ctx.check(now <= c.due + c.slack + delay, f'record {key}: refresh query more than the configured delay late (or never sent)')

        def step() -> None:
            ctx.check(loop.step(), 'no timer pending: the scheduler stopped while the browser is active')
            now = loop.now_ms
            if ctx.mode == 'replay':
                ctx.note(f'step at {now}: chains ' + ', '.join(f'{k}: due={c.due} exp={c.expire}' for k, c in chains.items()) + f' heap={[ (q.alias[0], q.when_millis, q.cancelled) for q in sched._query_heap]}')
            check_overdue(now)  # against the chains as they stood before this pass
            observe(now)
            nr = sched._next_run
            ctx.check(nr is not None and not nr.cancelled() and nr in loop.timers, 'no wake-up armed after a scheduler pass')

        # ---- drive: each event happens after `k` further timer steps, at a symbolic instant before the next timer
        for i, (op, key, k) in enumerate(events):
            for _ in range(k):
                step()
            gap = ctx.int(f'gap{i}', 0, gap_max)
            nxt_t = loop.next_timer()
            if nxt_t is not None:
                ctx.assume(loop.now_ms + gap < nxt_t.when_ms)
            loop.now_ms = loop.now_ms + gap
            now = loop.now_ms
            spec = PTRS[key]
            key = SAME_RECORD.get(key, key)  # record identity ignores letter case: one refresh chain
            if op == 'goodbye':
                ttl: Any = 0
            elif ttl_fixed is not None:
                ttl = ttl_fixed[i] if isinstance(ttl_fixed, list) else ttl_fixed
            else:
                ttl = ctx.int(f'ttl{i}', ttl_min, TTL_MAX)
            zc.record_manager.async_updates_from_response(mk_incoming(now, [spec.make(ttl, now, False)]))
            if op == 'goodbye':
                chains.pop(key, None)
            else:
                old = chains.get(key)
                new = Chain(spec.name, now, ttl)
                # a re-announcement whose 75 % point lies within +-delay of the pending attempt may
                # keep the pending schedule (tolerated: "at about 75 percent")
                if not (old is not None and old.due is not None and -delay <= new.due - old.due and new.due - old.due <= delay):
                    chains[key] = new
        busy = idle = 0
        while busy < steps_after and idle < 400:
            before = len(env.sent_log(zc))
            step()
            if len(env.sent_log(zc)) > before or len(startup_times) < 4:
                busy += 1
            elif ttl_fixed is not None:
                idle += 1  # a poll that found nothing due (only skipped over when the TTLs are concrete)
            else:
                busy += 1
        if ctx.twin:
            return
        ctx.check(not loop.callback_exceptions, f'exception in a timer callback: {loop.callback_exceptions[:1]}')
        # ---- start-up schedule
        if ctx.check(len(startup_times) == 4, f'{len(startup_times)} start-up queries observed'):
            first_delay = startup_times[0] - t0
            ctx.check(20 <= first_delay and first_delay <= 120, 'first query not 20..120 ms after the browser started')
            ctx.check(startup_times[1] - startup_times[0] == 1000, 'second start-up query not 1 s after the first')
            ctx.check(startup_times[2] - startup_times[1] == 4000, 'third start-up query not 4 s after the second')
            ctx.check(startup_times[3] - startup_times[2] == 9000, 'fourth start-up query not 9 s after the third')

    return fn


def sh(**kw: Any) -> Dict[str, Any]:
    return kw


QUICK = {
    'startup': sh(steps=7),
    'startup-two-types': sh(types=[T1, T2], steps=7),
    'startup-forced-qm': sh(question_type=DNSQuestionType.QM, steps=6),
    'startup-forced-qu': sh(question_type=DNSQuestionType.QU, steps=6),
    'one-record-early': sh(events=[('learn', 'x', 1)], steps=8, ttl_min=1),
    'one-record-late': sh(events=[('learn', 'x', 5)], steps=6),
    'two-records-together': sh(events=[('learn', 'x', 5), ('learn', 'y', 0)], steps=6),
    'two-records-apart': sh(events=[('learn', 'x', 4), ('learn', 'y', 1)], steps=5),
    'two-types-apart': sh(types=[T1, T2], events=[('learn', 'x', 4), ('learn', 'z', 1)], steps=5),
    'refresh': sh(events=[('learn', 'x', 4), ('refresh', 'x', 1)], steps=5),
    'goodbye': sh(events=[('learn', 'x', 4), ('goodbye', 'x', 1)], steps=4),
    'refresh-after-first-attempt': sh(events=[('learn', 'x', 4), ('refresh', 'x', 2)], steps=5),
    'goodbye-after-first-attempt': sh(events=[('learn', 'x', 4), ('goodbye', 'x', 2)], steps=4),
    'refresh-recased': sh(events=[('learn', 'x', 4), ('refresh', 'xu', 1)], steps=5),
    'goodbye-recased': sh(events=[('learn', 'x', 4), ('goodbye', 'xu', 1)], steps=4),
    'two-records-close-fixed-ttl': sh(events=[('learn', 'x', 5), ('learn', 'y', 0)], steps=6, ttl_fixed=1125, gap_max=9000),
    'two-records-fixed-ttls': sh(events=[('learn', 'x', 4), ('learn', 'y', 1)], steps=6, ttl_fixed=[1200, 1130], gap_max=9000),
    'three-records-fixed-ttls': sh(events=[('learn', 'x', 4), ('learn', 'y', 1), ('learn', 'z2', 0)], steps=6, ttl_fixed=[4500, 1200, 1200], gap_max=9000),
    'learn-goodbye-learn': sh(events=[('learn', 'x', 4), ('goodbye', 'x', 1), ('learn', 'x', 0)], steps=5),
    'two-records-goodbye-one': sh(events=[('learn', 'x', 4), ('learn', 'y', 0), ('goodbye', 'y', 1)], steps=5),
}
THOROUGH = {
    'two-records-refresh-one': sh(events=[('learn', 'x', 4), ('learn', 'y', 0), ('refresh', 'x', 1)], steps=5),
    'one-record-delay1s': sh(events=[('learn', 'x', 4)], steps=7, delay=1000),
    'one-record-delay60s': sh(events=[('learn', 'x', 4)], steps=7, delay=60000, gap_max=60000),
    'two-records-startup': sh(events=[('learn', 'x', 1), ('learn', 'y', 1)], steps=8),
    'two-records-after-query': sh(events=[('learn', 'x', 4), ('learn', 'y', 2)], steps=5),
    'three-records': sh(types=[T1, T2], events=[('learn', 'x', 4), ('learn', 'y', 0), ('learn', 'z', 1)], steps=3),
    'two-records-delay60s': sh(events=[('learn', 'x', 4), ('learn', 'y', 1)], steps=5, delay=60000, gap_max=60000),
    'refresh-floor': sh(events=[('learn', 'x', 4), ('refresh', 'x', 0)], steps=5, ttl_min=1),
}


def obligations(tier: str) -> List[Obligation]:
    shapes = dict(QUICK)
    if tier == 'thorough':
        shapes.update(THOROUGH)
    return [Obligation(f'sched[{k}]', make(v), 'sched', {'name': k, **{a: str(b) for a, b in v.items()}}, timeout=150 if tier == 'quick' else 420)
            for k, v in shapes.items()]


META = {
    'explanation': 'Real _ServiceBrowserBase + QueryScheduler + RecordManager on the fake loop, driven timer by timer. Browser start instant, '
    'the 20..120 ms start-up draw, each learn / re-announce / goodbye instant (gaps 0..30 s or 0..120 s) and each TTL (1..2^31-1, floor applied) '
    'are z3 integers. After every timer the oracle checks: start-up schedule and QU bit; every refresh pass is >= delay after the previous; every '
    'asked type is justified by a due record; no record is more than delay overdue (75 %, then +10 % of TTL after each attempt until expiry); a '
    'wake-up is armed.',
    'functions': [
        'zeroconf._services.browser.QueryScheduler.start/_process_startup_queries/_process_ready_types/reschedule_ptr_first_refresh/'
        'cancel_ptr_refresh/schedule_rescue_query/_schedule_ptr_refresh/_schedule_ptr_query/async_send_ready_queries',
        '_ScheduledPTRQuery ordering', 'browser.generate_service_query/_group_ptr_queries_with_known_answers',
        '_ServiceBrowserBase.__init__/_async_start/_async_start_query_sender/async_update_records/async_update_records_complete/_enqueue_callback',
        'RecordManager.async_updates_from_response/async_add_listener', 'DNSRecord.get_expiration_time/is_stale', 'QuestionHistory.suppresses/add_question_at_time',
    ],
    'bounds': {'t0': [1000, 2**40], 'ttl': [1, TTL_MAX], 'event instants': 'after an enumerated number of timers, anywhere before the next one (gap 0..30 s / 60 s)', 'timer steps after the last event': '4..8', 'browser delay': '10 s (quick); 1 s, 10 s, 60 s (thorough)', 'records': '<= 3'},
    'outside': ['histories beyond the stepped horizon (the third rescue query of a long-lived record may lie outside it)', 'unicast browsers (addr given)'],
    'stubs': env.STUBS,
    'float_sites': [
        'RESCUE_RECORD_RETRY_TTL_PERCENTAGE = 0.1 times ttl*1000 is taken as exactly ttl*100: STATED, NOT SOLVED (vkit/floatlemmas.py L-tenth gives the argument; z3 and cvc5 timed out on the QF_BVFP query)',
        'clock resolution 1e-6 ms added to an integral instant: `when > now + 1e-6` iff `when > now` for integral values (L-resolution, immediate)',
        'const._DNS_PTR_MIN_TTL = 1125.0 (exact)',
    ],
    'assumptions': ['CrossHair 0.0.110 / z3 5.1.0', 'clock values are integral milliseconds; timers fire exactly on time'],
}
