"""E2: a small symbolic evaluator over the Python AST of leaf kernels of /repo (regenerated on every run).

Values are z3 Int / Real / Bool terms or Python constants.  Supported: assignments, if/elif/else,
return, raise, pass, expression statements (ignored calls to log.*), arithmetic + - * / // %, comparisons,
and / or / not, conditional expressions, attribute reads of `self` (supplied by the caller) and of module
constants (resolved in the real module), int(x) (truncation toward zero), calls of other methods of the same
class through `self.` (inlined).  Anything else raises Unsupported, which the caller reports as inconclusive.

Each function becomes a list of (path condition, outcome) with outcome = ('return', value) | ('raise', name).
Python `float` arithmetic is modelled over the reals; the places where that matters are covered by
vkit.floatlemmas.
"""
from __future__ import annotations

import ast
import inspect
import textwrap
from typing import Any, Callable, Dict, List, Optional, Tuple

import z3


class Unsupported(Exception):
    pass


PACKED_INDEX_ERROR = -1  # value of table[index] when the index is out of range
PACKED_RANGE_ERROR = -2  # value of Struct.pack(v) when v does not fit


def _is_z3(v: Any) -> bool:
    return isinstance(v, z3.ExprRef)


def _to_real(v: Any) -> Any:
    if _is_z3(v):
        return z3.ToReal(v) if v.sort() == z3.IntSort() else v
    return z3.RealVal(v)


def _arith(op: ast.operator, a: Any, b: Any) -> Any:
    if isinstance(op, ast.Div):
        return _to_real(a) / _to_real(b)
    if not _is_z3(a) and not _is_z3(b):
        return {ast.Add: lambda: a + b, ast.Sub: lambda: a - b, ast.Mult: lambda: a * b, ast.FloorDiv: lambda: a // b, ast.Mod: lambda: a % b}[type(op)]()
    real = any((_is_z3(x) and x.sort() == z3.RealSort()) or isinstance(x, float) for x in (a, b))
    if real:
        a, b = _to_real(a), _to_real(b)
    if isinstance(op, ast.Add):
        return a + b
    if isinstance(op, ast.Sub):
        return a - b
    if isinstance(op, ast.Mult):
        return a * b
    if isinstance(op, ast.FloorDiv) and not real:
        if not _is_z3(b) and b > 0:
            return a / b  # z3 integer division is floor division for a positive divisor
        raise Unsupported('floor division by a non-constant')
    if isinstance(op, ast.Mod) and not real:
        if not _is_z3(b) and b > 0:
            return a % b
    raise Unsupported(f'operator {type(op).__name__}')


def _cmp(op: ast.cmpop, a: Any, b: Any) -> Any:
    if _is_z3(a) or _is_z3(b):
        ra = (_is_z3(a) and a.sort() == z3.RealSort()) or isinstance(a, float)
        rb = (_is_z3(b) and b.sort() == z3.RealSort()) or isinstance(b, float)
        if ra or rb:
            a, b = _to_real(a), _to_real(b)
    table = {ast.Lt: lambda: a < b, ast.LtE: lambda: a <= b, ast.Gt: lambda: a > b, ast.GtE: lambda: a >= b, ast.Eq: lambda: a == b, ast.NotEq: lambda: a != b}
    if type(op) not in table:
        raise Unsupported(f'comparison {type(op).__name__}')
    return table[type(op)]()


def _truth(v: Any) -> Any:
    if _is_z3(v):
        if v.sort() == z3.BoolSort():
            return v
        return v != 0
    return bool(v)


class Evaluator:
    def __init__(self, fn: Callable, self_attrs: Dict[str, Any], cls: Optional[type] = None) -> None:
        self.fn = inspect.unwrap(fn)
        self.module = inspect.getmodule(self.fn)
        self.self_attrs = self_attrs
        self.cls = cls
        src = textwrap.dedent(inspect.getsource(self.fn))
        self.tree = ast.parse(src).body[0]
        assert isinstance(self.tree, ast.FunctionDef)

    # -- expressions
    def ev(self, node: ast.AST, env: Dict[str, Any]) -> Any:
        if isinstance(node, ast.Constant):
            return node.value
        if isinstance(node, ast.Name):
            if node.id in env:
                return env[node.id]
            if hasattr(self.module, node.id):
                v = getattr(self.module, node.id)
                if isinstance(v, (int, float, bool)):
                    return v
            raise Unsupported(f'name {node.id}')
        if isinstance(node, ast.Attribute):
            if isinstance(node.value, ast.Name) and node.value.id == 'self':
                if node.attr in self.self_attrs:
                    return self.self_attrs[node.attr]
                raise Unsupported(f'self.{node.attr}')
            raise Unsupported('attribute access')
        if isinstance(node, ast.BinOp):
            return _arith(node.op, self.ev(node.left, env), self.ev(node.right, env))
        if isinstance(node, ast.UnaryOp):
            v = self.ev(node.operand, env)
            if isinstance(node.op, ast.Not):
                t = _truth(v)
                return z3.Not(t) if _is_z3(t) else (not t)
            if isinstance(node.op, ast.USub):
                return -v
            raise Unsupported('unary operator')
        if isinstance(node, ast.Compare):
            left = self.ev(node.left, env)
            parts = []
            for op, right_node in zip(node.ops, node.comparators):
                right = self.ev(right_node, env)
                parts.append(_cmp(op, left, right))
                left = right
            return parts[0] if len(parts) == 1 else z3.And(*[p if _is_z3(p) else z3.BoolVal(p) for p in parts])
        if isinstance(node, ast.BoolOp):
            vals = [_truth(self.ev(v, env)) for v in node.values]
            vals = [v if _is_z3(v) else z3.BoolVal(v) for v in vals]
            return z3.And(*vals) if isinstance(node.op, ast.And) else z3.Or(*vals)
        if isinstance(node, ast.IfExp):
            c = _truth(self.ev(node.test, env))
            a, b = self.ev(node.body, env), self.ev(node.orelse, env)
            if not _is_z3(c):
                return a if c else b
            if not _is_z3(a) and not _is_z3(b) and isinstance(a, (int, float)) and isinstance(b, (int, float)):
                if isinstance(a, float) or isinstance(b, float):
                    a, b = z3.RealVal(a), z3.RealVal(b)
                else:
                    a, b = z3.IntVal(a), z3.IntVal(b)
            if _is_z3(a) and not _is_z3(b):
                b = z3.RealVal(b) if a.sort() == z3.RealSort() else z3.IntVal(b)
            if _is_z3(b) and not _is_z3(a):
                a = z3.RealVal(a) if b.sort() == z3.RealSort() else z3.IntVal(a)
            if a.sort() != b.sort():
                a, b = _to_real(a), _to_real(b)
            return z3.If(c, a, b)
        if isinstance(node, ast.Subscript) and isinstance(node.value, ast.Name) and hasattr(self.module, node.value.id):
            # table[index] for a module-level tuple / list of packed big-endian byte strings (pre-packed lookup tables): the entry as
            # an integer; PACKED_INDEX_ERROR when the index is out of range (Python's negative indices included)
            table = getattr(self.module, node.value.id)
            if isinstance(table, (tuple, list)) and table and all(isinstance(e, bytes) for e in table):
                idx = self.ev(node.slice, env)
                n = len(table)
                arr = z3.K(z3.IntSort(), z3.IntVal(PACKED_INDEX_ERROR))
                for i, e in enumerate(table):
                    arr = z3.Store(arr, i, int.from_bytes(e, 'big'))
                if not _is_z3(idx):
                    return int.from_bytes(table[idx], 'big')
                return z3.If(z3.And(idx >= 0, idx < n), z3.Select(arr, idx), z3.If(z3.And(idx < 0, idx >= -n), z3.Select(arr, idx + n), z3.IntVal(PACKED_INDEX_ERROR)))
            raise Unsupported('subscript')
        if isinstance(node, ast.Call):
            if isinstance(node.func, ast.Name) and hasattr(self.module, node.func.id) and len(node.args) == 1:
                import struct as _struct

                target = getattr(self.module, node.func.id)
                st = getattr(target, '__self__', None)
                if isinstance(st, _struct.Struct) and getattr(target, '__name__', '') == 'pack' and st.format in ('>B', '>H', '>L', '!B', '!H', '!L'):
                    # Struct('>H').pack(v): the big-endian integer itself when it fits, PACKED_RANGE_ERROR (struct.error) otherwise
                    bits = {'B': 8, 'H': 16, 'L': 32}[st.format[-1]]
                    v = self.ev(node.args[0], env)
                    if not _is_z3(v):
                        return v if 0 <= v < 2**bits else PACKED_RANGE_ERROR
                    return z3.If(z3.And(v >= 0, v < 2**bits), v, z3.IntVal(PACKED_RANGE_ERROR))
            if isinstance(node.func, ast.Name) and node.func.id == 'int' and len(node.args) == 1:
                v = self.ev(node.args[0], env)
                if _is_z3(v) and v.sort() == z3.RealSort():
                    return z3.If(v >= 0, z3.ToInt(v), -z3.ToInt(-v))
                return v if _is_z3(v) else int(v)
            raise Unsupported('call')
        raise Unsupported(type(node).__name__)

    # -- statements: returns list of (condition, outcome)
    def run(self, args: Dict[str, Any]) -> List[Tuple[Any, Tuple[str, Any]]]:
        out: List[Tuple[Any, Tuple[str, Any]]] = []
        self._block(self.tree.body, dict(args), z3.BoolVal(True), out)
        return out

    def _block(self, stmts: List[ast.stmt], env: Dict[str, Any], pc: Any, out: List[Any]) -> Optional[Dict[str, Any]]:
        """Executes stmts; returns the environment if control falls through, None if every path ended."""
        for i, st in enumerate(stmts):
            if isinstance(st, ast.Expr):
                if isinstance(st.value, ast.Constant):
                    continue  # docstring
                raise Unsupported('expression statement')
            if isinstance(st, ast.Pass):
                continue
            if isinstance(st, ast.Assign) and len(st.targets) == 1 and isinstance(st.targets[0], ast.Name):
                env[st.targets[0].id] = self.ev(st.value, env)
                continue
            if isinstance(st, ast.Return):
                out.append((pc, ('return', self.ev(st.value, env) if st.value is not None else None)))
                return None
            if isinstance(st, ast.Raise):
                name = 'Exception'
                if isinstance(st.exc, ast.Name):
                    name = st.exc.id
                elif isinstance(st.exc, ast.Call) and isinstance(st.exc.func, ast.Name):
                    name = st.exc.func.id
                out.append((pc, ('raise', name)))
                return None
            if isinstance(st, ast.If):
                c = _truth(self.ev(st.test, env))
                rest = stmts[i + 1:]
                if not _is_z3(c):
                    branch = st.body if c else st.orelse
                    e2 = self._block(list(branch), env, pc, out)
                    if e2 is None:
                        return None
                    env = e2
                    continue
                e_then = self._block(list(st.body) + rest, dict(env), z3.And(pc, c), out)
                e_else = self._block(list(st.orelse) + rest, dict(env), z3.And(pc, z3.Not(c)), out)
                if e_then is not None or e_else is not None:
                    # a fall-through at the end of the function: implicit return None
                    for e, cond in ((e_then, z3.And(pc, c)), (e_else, z3.And(pc, z3.Not(c)))):
                        if e is not None:
                            out.append((cond, ('return', None)))
                return None
            raise Unsupported(type(st).__name__)
        return env


def solve(constraints: List[Any], timeout_ms: int = 60000) -> Tuple[str, Optional[z3.ModelRef], float]:
    import time

    s = z3.Solver()
    s.set('timeout', timeout_ms)
    for c in constraints:
        s.add(c)
    t0 = time.time()
    r = s.check()
    dt = time.time() - t0
    if r == z3.sat:
        return 'sat', s.model(), dt
    return str(r), None, dt
