"""C13 - queries carry known answers and are not needlessly repeated.

Engine E1 on the real generate_service_query, ServiceInfo._generate_request_query, QuestionHistory,
QueryHandler.async_response (which records heard questions) and DNSOutgoing._write_ttl.  Record ages and
TTLs, the gap between two askers and the query instants are solver variables.  (Start-up QU-then-QM of
browsers is decided under C10, the lookup schedule under C18, packet splitting with TC under C14.)
"""
from __future__ import annotations

from typing import Any, Dict, List, Tuple

from vkit import env, wire
from vkit.build import IN, VOCAB, Spec
from vkit.responder import V4A, Q, Svc, mk_query
from vkit.runner import Obligation
from zeroconf import const
from zeroconf._dns import DNSQuestionType
from zeroconf._protocol.outgoing import DNSOutgoing
from zeroconf._services.browser import generate_service_query
from zeroconf._services.info import ServiceInfo

PROPERTY = 'C13'
T1, T2 = '_http._tcp.local.', '_ipp._tcp.local.'
NAME, HOST = 'Alpha._http._tcp.local.', 'alpha.local.'
PTR, A, AAAA, SRV, TXT = const._TYPE_PTR, const._TYPE_A, const._TYPE_AAAA, const._TYPE_SRV, const._TYPE_TXT
TTL_MAX = 2**31 - 1
AGE_MAX = 2**42


def fill_cache(ctx: Any, zc: Any, t0: Any, keys: List[str]) -> Dict[str, Tuple[Any, Any]]:
    held = {}
    for k in keys:
        age = ctx.int(f'age_{k}', 0, AGE_MAX)
        ttl = ctx.int(f'ttl_{k}', 1, TTL_MAX)
        zc.cache.async_add_records([VOCAB[k].make(ttl, t0 - age, VOCAB[k].kind != 'PTR')])
        held[k] = (t0 - age, ttl)
    return held


def fresh(entry: Tuple[Any, Any], now: Any) -> bool:
    """More than half of the TTL left."""
    return entry[0] + 500 * entry[1] > now


def make_browser_query(shape: Dict[str, Any]) -> Any:
    keys: List[str] = shape['cached']
    types: List[str] = shape.get('types', [T1])
    qtype = shape.get('question_type')
    multicast = shape.get('multicast', True)

    def fn(ctx: Any) -> None:
        t0 = ctx.int('t0', 2**43, 2**44)
        loop = env.begin(ctx, t0)
        zc = env.make_zc(loop)
        held = fill_cache(ctx, zc, t0, keys)
        outs = generate_service_query(zc, t0, set(types), multicast, qtype)
        if ctx.twin:
            return
        want_qu = (not multicast) if qtype is None else qtype is DNSQuestionType.QU
        asked = sorted(q.name for o in outs for q in o.questions)
        ctx.check(asked == sorted(types), f'query asks {asked}, expected every browsed type once')
        for o in outs:
            ctx.check(o.is_query(), 'not a query')
            for q in o.questions:
                ctx.check(q.type == PTR and q.class_ == IN and q.unicast == want_qu, 'question is not a PTR/IN question with the expected QU bit')
            for _r, when in o.answers:
                ctx.check(when == t0, 'known answer not stamped with the query instant (remaining TTL would be wrong)')
        for t in types:
            want = sorted(VOCAB[k].ident for k in keys if VOCAB[k].kind == 'PTR' and VOCAB[k].name.lower() == t.lower() and fresh(held[k], t0))
            got = []
            for o in outs:
                if any(q.name == t for q in o.questions):
                    for r, _ in o.answers:
                        if r.name.lower() == t.lower():
                            for k in keys:
                                if VOCAB[k].make(0, 1) == r:
                                    got.append(VOCAB[k].ident)
            ctx.check(sorted(got) == want, f'known answers for {t}: {[g[4] for g in sorted(got)]}, expected exactly the records with more than half their TTL left {[w[4] for w in want]}')

    return fn


def make_many_known(shape: Dict[str, Any]) -> Any:
    """Dozens of cached pointer records learned in groups (one symbolic age / TTL per group): the real generate_service_query
    buckets the questions, the real packets() splits the known answers; every datagram is read back."""
    groups: List[Tuple[str, str, int]] = shape['groups']  # (group key, type, number of records)
    types = sorted({t for _, t, _ in groups} | set(shape.get('extra_types', [])))

    def fn(ctx: Any) -> None:
        from vkit.pkt import Reader, name_labels, run_packets

        t0 = ctx.int('t0', 2**43, 2**44)
        loop = env.begin(ctx, t0)
        env.use_token_packets(False)
        zc = env.make_zc(loop)
        held: Dict[str, Tuple[Any, Any, List[str]]] = {}
        for g, t, n in groups:
            age = ctx.int(f'age_{g}', 0, AGE_MAX)
            ttl = ctx.int(f'ttl_{g}', 1, TTL_MAX)
            aliases = [f'Instance-{g}-{i:03d}.{t}' for i in range(n)]
            zc.cache.async_add_records([Spec('PTR', t, alias=a).make(ttl, t0 - age, False) for a in aliases])
            held[g] = (t0 - age, ttl, aliases)
        wire.install()
        try:
            outs = generate_service_query(zc, t0, set(types), True, DNSQuestionType.QM)
            if ctx.twin:
                return
            asked = sorted(q.name for o in outs for q in o.questions)
            ctx.check(asked == sorted(types), f'query asks {asked}, expected every browsed type once')
            seen: Dict[str, List[str]] = {t: [] for t in types}
            for o in outs:
                snaps = run_packets(o)
                nq_total = 0
                small = True
                for k, snap in enumerate(snaps):
                    rd = Reader(snap, ctx)
                    last = k == len(snaps) - 1
                    hid, hflags, nq, nan, nns, nar = rd.header()
                    ctx.check(rd.length <= 1460 or nq + nan == 1, f'query datagram of {rd.length} octets with {nq + nan} entries')
                    ctx.check((hflags & const._FLAGS_TC != 0) == (not last), 'TC bit must be set on every datagram of a split query but the last')
                    ctx.check(hflags & const._FLAGS_QR_MASK == const._FLAGS_QR_QUERY and nns == 0 and nar == 0, 'not a plain query datagram')
                    ents = rd.entries(nq, nan)
                    if not ctx.check(len(ents) == nq + nan and not any(e.get('malformed') for e in ents), 'header counts do not match the entries present'):
                        return
                    nq_total += nq
                    ctx.check(k == 0 or nq == 0, 'questions repeated in a continuation datagram')
                    for e in ents[nq:]:
                        labels, _ = rd.read_name(e['rdata_index'])
                        owner = b'.'.join(e['name']).decode() + '.'
                        ctx.check(e['type'] == PTR and owner in seen, 'known answer is not a pointer record of an asked type')
                        if owner in seen and labels is not None:
                            seen[owner].append(b'.'.join(labels).decode() + '.')
                        # remaining TTL in whole seconds
                        g = next((gg for gg, (c, tl, al) in held.items() if labels is not None and b'.'.join(labels).decode() + '.' in al), None)
                        if ctx.check(g is not None, 'known answer names an instance that is not cached'):
                            created, ttl, _al = held[g]
                            left = created + 1000 * ttl - t0
                            v = e['ttl']
                            ctx.check(1000 * v <= left and left < 1000 * v + 1000, 'known answer does not carry the remaining TTL in whole seconds')
                    small = small and len(snaps) == 1
                ctx.check(nq_total == len(o.questions), 'a question was lost when the query was split')
                if len(o.questions) > 1:
                    ctx.check(len(snaps) == 1, 'several questions were bucketed together although their known answers do not fit one datagram')
            for t in types:
                want = sorted(a for g, (c, tl, al) in held.items() for a in al if a.endswith('.' + t) and fresh((c, tl), t0))
                ctx.check(sorted(seen[t]) == want, f'known answers for {t}: {len(seen[t])} listed, expected exactly the {len(want)} records with more than half their TTL left, each once')
        finally:
            wire.uninstall()

    return fn


def make_remaining_ttl(shape: Dict[str, Any]) -> Any:
    def fn(ctx: Any) -> None:
        env.begin(ctx, 1000)
        wire.install()
        try:
            created = ctx.int('created', 1, 2**44)
            ttl = ctx.int('ttl', 0, 2**32 - 1)
            now = ctx.int('now', 0, 2**45)
            rec = VOCAB['P1'].make(ttl, created, False)
            out = DNSOutgoing(const._FLAGS_QR_QUERY)
            out._write_ttl(rec, now)
            if ctx.twin:
                return
            tok = out.data[-1]
            if now == 0:
                ctx.check(tok.value == ttl, 'TTL of a record written without a reference instant is not its TTL')
            else:
                left = created + 1000 * ttl - now
                v = tok.value
                if left > 0:
                    ctx.check(1000 * v <= left and left < 1000 * v + 1000, 'known answer does not carry the remaining TTL in whole seconds')
                else:
                    ctx.check(v == 0, 'remaining TTL of an elapsed record is not 0')
            ctx.check(out.size == 12 + 4, 'TTL field not accounted as four octets')
        finally:
            wire.uninstall()

    return fn


def make_two_askers(shape: Dict[str, Any]) -> Any:
    keys: List[str] = shape['cached']
    learn_between: List[str] = shape.get('learn_between', [])
    first: str = shape.get('first', 'browser')  # 'browser' | 'heard' | 'heard-no-service'
    second_type = shape.get('second_type')  # None | QU | QM

    def fn(ctx: Any) -> None:
        t0 = ctx.int('t0', 2**43, 2**44)
        loop = env.begin(ctx, t0)
        zc = env.make_zc(loop)
        held = fill_cache(ctx, zc, t0, keys)
        first_known: List[Tuple] = []
        recorded = True
        if first == 'browser':
            outs = generate_service_query(zc, t0, {T1}, True, DNSQuestionType.QM)
            first_known = [VOCAB[k].ident for k in keys if VOCAB[k].name == T1 and fresh(held[k], t0)]
            ctx.check(len(outs) == 1, 'first QM question with an empty history was not sent')
        else:
            # the instance hears the question from another host; it records it only as an authoritative responder
            if first == 'heard':
                zc.registry.async_add(Svc('S1', T1, NAME, HOST, 80, [V4A], []).info())
            else:
                recorded = False
            heard_keys = shape.get('heard_known', [])
            if shape.get('heard_in_two_datagrams'):
                # a truncated query followed by its continuation: the known answers are the union of both datagrams
                split = max(1, len(heard_keys) // 2)
                msgs = [mk_query(t0, [Q(T1, PTR)], [VOCAB[k].make(4500, t0, False) for k in heard_keys[:split]], truncated=True, data=b'p1'),
                        mk_query(t0, [Q(T1, PTR)], [VOCAB[k].make(4500, t0, False) for k in heard_keys[split:]], data=b'p2')]
                zc.query_handler.async_response(msgs, False)
            else:
                recs = [VOCAB[k].make(4500, t0, False) for k in heard_keys]
                zc.query_handler.async_response([mk_query(t0, [Q(T1, PTR)], recs)], False)
            first_known = [VOCAB[k].ident for k in heard_keys]
        gap = ctx.int('gap', 0, 2500)
        if shape.get('purge_between'):
            # the periodic cache / history clean-up of the engine runs at some instant between the two askers
            tick = ctx.int('purge_tick_offset', 0, 2500)
            ctx.assume(tick <= gap)
            loop.now_ms = t0 + tick
            zc.engine._async_cache_cleanup()
            if zc.engine._cleanup_timer is not None:
                zc.engine._cleanup_timer.cancel()
        loop.now_ms = t0 + gap
        now = loop.now_ms
        for k in learn_between:
            zc.cache.async_add_records([VOCAB[k].make(4500, now, False)])
            held[k] = (now, 4500)
        outs2 = generate_service_query(zc, now, {T1}, True, second_type)
        if ctx.twin:
            return
        sent = len(outs2) == 1 and len(outs2[0].questions) == 1
        second_known = [VOCAB[k].ident for k in held if VOCAB[k].name == T1 and fresh(held[k], now)]
        is_qu = second_type is DNSQuestionType.QU
        superset = all(i in second_known for i in first_known)
        must_suppress = recorded and not is_qu and gap <= 999 and superset
        if must_suppress:
            ctx.check(not sent, 'QM question repeated although it was asked / heard within 999 ms with nothing new among its known answers')
        else:
            ctx.check(sent, 'question suppressed although it is QU, older than 999 ms, not recorded, or the earlier asker knew something this one does not')

    return fn


def make_lookup_known(shape: Dict[str, Any]) -> Any:
    keys: List[str] = shape['cached']
    qtype = shape.get('question_type', DNSQuestionType.QU)

    def fn(ctx: Any) -> None:
        t0 = ctx.int('t0', 2**43, 2**44)
        loop = env.begin(ctx, t0)
        zc = env.make_zc(loop)
        held = fill_cache(ctx, zc, t0, keys)
        info = ServiceInfo(T1, NAME, server=HOST)
        hist_gap = None
        if shape.get('history'):
            # the same questions were asked (QM, nothing known) a symbolic while ago by someone in this instance
            from zeroconf._dns import DNSQuestion

            hist_gap = ctx.int('history_gap', 0, 2500)
            for n_, t_ in ((NAME, SRV), (NAME, TXT), (HOST, A), (HOST, AAAA)):
                zc.question_history.add_question_at_time(DNSQuestion(n_, t_, IN), t0 - hist_gap, set())
        out = info._generate_request_query(zc, t0, qtype)
        if ctx.twin:
            return
        if hist_gap is not None:
            if qtype is DNSQuestionType.QU or hist_gap > 999:
                ctx.check(len(out.questions) == 4, 'lookup questions suppressed although they are QU or the earlier asking is older than 999 ms')
            else:
                ctx.check(len(out.questions) == 0, 'QM lookup questions repeated within 999 ms of an identical asking')
            return
        fresh_keys = [k for k in keys if fresh(held[k], t0)]
        want_q = []
        if not any(VOCAB[k].kind == 'SRV' for k in fresh_keys):
            want_q.append((NAME.lower(), SRV))
        if not any(VOCAB[k].kind == 'TXT' for k in fresh_keys):
            want_q.append((NAME.lower(), TXT))
        want_q += [(HOST, A), (HOST, AAAA)]
        got_q = sorted((q.name.lower(), q.type) for q in out.questions)
        ctx.check(got_q == sorted(want_q), f'lookup asks {got_q}, expected {sorted(want_q)}')
        for q in out.questions:
            ctx.check(q.unicast == (qtype is DNSQuestionType.QU), 'QU bit of a lookup question wrong')
        want_known = sorted(VOCAB[k].ident for k in fresh_keys if VOCAB[k].kind in ('A', 'AAAA'))
        got_known = []
        for r, when in out.answers:
            ctx.check(when == t0, 'known answer not stamped with the query instant')
            for k in keys:
                if VOCAB[k].make(0, 1) == r:
                    got_known.append(VOCAB[k].ident)
        ctx.check(sorted(got_known) == want_known, 'lookup known answers are not exactly the address records with more than half their TTL left')

    return fn


def obligations(tier: str) -> List[Obligation]:
    obs: List[Obligation] = []
    bq = {
        'empty': {'cached': []},
        'one': {'cached': ['P1']},
        'two': {'cached': ['P1', 'P2']},
        'two-types': {'cached': ['P1', 'Q1'], 'types': [T1, T2]},
        'other-type-only': {'cached': ['Q1']},
        'forced-qu': {'cached': ['P1'], 'question_type': DNSQuestionType.QU},
        'forced-qm': {'cached': ['P1', 'P2'], 'question_type': DNSQuestionType.QM},
        'unicast-browser': {'cached': ['P1'], 'multicast': False},
    }
    if tier == 'thorough':
        bq.update({'three': {'cached': ['P1', 'P2', 'Q1'], 'types': [T1, T2]}, 'with-others': {'cached': ['P1', 'S1', 'A1']}})
    for k, v in bq.items():
        obs.append(Obligation(f'browser-query[{k}]', make_browser_query(v), 'browser-query', {'name': k, **{a: str(b) for a, b in v.items()}}, timeout=120))
    mk = {
        'one-type-two-groups': {'groups': [('g', T1, 30), ('h', T1, 30)]},
        'two-types': {'groups': [('g', T1, 40), ('h', T2, 25)]},
    }
    if tier == 'thorough':
        mk.update({'two-types-three-groups': {'groups': [('g', T1, 30), ('h', T1, 30), ('k', T2, 50)]}, 'small-and-large': {'groups': [('g', T1, 3), ('h', T2, 70)], 'extra_types': ['_ssh._tcp.local.']}})
    for k, v in mk.items():
        obs.append(Obligation(f'many-known-answers[{k}]', make_many_known(v), 'many-known-answers', {'name': k, **{a: str(b) for a, b in v.items()}}, timeout=280 if tier == 'quick' else 900))
    obs.append(Obligation('remaining-ttl', make_remaining_ttl({}), 'remaining-ttl', {}, timeout=60))
    from vkit import floatlemmas as fl

    obs.append(Obligation('float-lemma[half-ttl comparison exact, 0..2^32]', fl.lemma_half, 'float-lemma', {}, kind='smt', timeout=130, replay=fl.replay_half))
    obs.append(Obligation('float-lemma[int(ms/1000.0) == ms//1000, 0..2^24]', fl.lemma_remaining, 'float-lemma', {}, kind='smt', timeout=250, replay=fl.replay_remaining))
    ta = {
        'same-knowledge': {'cached': ['P1']},
        'nothing-known': {'cached': []},
        'second-knows-more': {'cached': ['P1'], 'learn_between': ['P2']},
        'second-qu': {'cached': ['P1'], 'second_type': DNSQuestionType.QU},
        'heard-knows-less': {'cached': ['P1'], 'first': 'heard', 'heard_known': []},
        'heard-knows-more': {'cached': ['P1'], 'first': 'heard', 'heard_known': ['P1', 'P2']},
        'heard-knows-the-same': {'cached': ['P1'], 'first': 'heard', 'heard_known': ['P1']},
        'heard-two-datagrams-knows-more': {'cached': ['P1'], 'first': 'heard', 'heard_known': ['P2', 'P1'], 'heard_in_two_datagrams': True},
        'heard-but-not-responder': {'cached': ['P1'], 'first': 'heard-no-service', 'heard_known': []},
        'same-knowledge-purge-tick-between': {'cached': ['P1'], 'purge_between': True},
        'heard-purge-tick-between': {'cached': ['P1'], 'first': 'heard', 'heard_known': ['P1'], 'purge_between': True},
    }
    if tier == 'thorough':
        ta.update({'two-cached': {'cached': ['P1', 'P2']}, 'heard-same': {'cached': ['P1', 'P2'], 'first': 'heard', 'heard_known': ['P1', 'P2']}})
    for k, v in ta.items():
        obs.append(Obligation(f'two-askers[{k}]', make_two_askers(v), 'two-askers', {'name': k, **{a: str(b) for a, b in v.items()}}, timeout=120))
    lk = {
        'nothing': {'cached': []},
        'srv-txt': {'cached': ['S1', 'T1']},
        'addresses': {'cached': ['A1', 'A2']},
        'all-qm': {'cached': ['S1', 'T1', 'A1', 'AAAA1'], 'question_type': DNSQuestionType.QM},
        'after-history-qu': {'cached': [], 'history': True},
        'after-history-qm': {'cached': [], 'history': True, 'question_type': DNSQuestionType.QM},
    }
    for k, v in lk.items():
        obs.append(Obligation(f'lookup-query[{k}]', make_lookup_known(v), 'lookup-query', {'name': k, **{a: str(b) for a, b in v.items()}}, timeout=120))
    return obs


META = {
    'explanation': 'generate_service_query / ServiceInfo._generate_request_query run on caches of 0..3 (4) records whose age (0..2^42 ms) and TTL '
    '(1..2^31-1) are z3 integers: the attached known answers must be exactly the matching records with more than half their TTL left, stamped with the '
    'query instant; DNSOutgoing._write_ttl with symbolic created/ttl/now writes floor(remaining seconds). two-askers: a first asker (own QM browser query, '
    'or a question heard and answerable as responder) followed after a symbolic gap 0..2500 ms by a second asker: suppressed iff recorded, QM, gap <= 999 '
    'and the first known-answer list is a subset of the second.',
    'functions': [
        'zeroconf._services.browser.generate_service_query/_group_ptr_queries_with_known_answers/_DNSPointerOutgoingBucket.add',
        'zeroconf._services.info.ServiceInfo._generate_request_query/_add_question_with_known_answers', 'zeroconf._history.QuestionHistory.suppresses/add_question_at_time',
        'QueryHandler.async_response (history recording)', 'DNSCache.get_all_by_details', 'DNSRecord.is_stale/get_remaining_ttl', 'DNSOutgoing._write_ttl/_write_int/add_answer_at_time',
    ],
    'bounds': {'age ms': [0, AGE_MAX], 'ttl': [1, TTL_MAX], 'gap ms': [0, 2500], 'cached records': '<= 4', 'remaining-ttl lemma': 'created 1..2^44, ttl 0..2^32-1, now 0..2^45'},
    'outside': ['more than about 100 cached pointer records; ages symbolic per record rather than per group of records learned together (many-known-answers[*])', 'browser start-up QU-then-QM (C10) and lookup schedule (C18) are decided there'],
    'stubs': env.STUBS + ['remaining-ttl: DNSOutgoing._write_int replaced by a value-carrying token (vkit.wire)'],
    'float_sites': ['DNSRecord.get_remaining_ttl divides by 1000.0 and _write_int truncates: trunc(fl(x/1000.0)) == x div 1000 - decided by z3 in QF_BVFP for 0 <= x < 2^24 ms (float-lemma obligation), argued for larger x (vkit/floatlemmas.py)',
                    'DNSRRSet.suppresses / _suppressed_by_answer: other.ttl > ttl / 2 - decided in QF_BVFP for all 32-bit TTLs (float-lemma obligation)'],
    'assumptions': ['CrossHair 0.0.110 / z3 5.1.0'],
}
