"""Shared drivers for the ingestion-side properties (C04, C05, C06, C16)."""
from __future__ import annotations

from typing import Any, Dict, List, Tuple

from vkit import env
from vkit.build import VOCAB, Spec, mk_incoming
from vkit.model import RefCache

TTL_MAX = 2**32 - 1
T0_MAX = 2**40
GAP_MAX = 2**33


def parse_datagram(text: str) -> List[Tuple[str, bool]]:
    """'P1 A1+ T1' -> [('P1', False), ('A1', True), ('T1', False)]   ('+' = cache-flush bit)."""
    out = []
    for tok in text.split():
        flush = tok.endswith('+')
        key = tok.rstrip('+')
        assert key in VOCAB, key
        out.append((key, flush))
    return out


def relevant_specs(datagrams: List[List[Tuple[str, bool]]]) -> List[Spec]:
    """Vocabulary records sharing an owner name with a record of the shape (others cannot be affected
    by name-keyed cache operations; two outsiders are kept as canaries)."""
    names = {VOCAB[k].name.lower() for dg in datagrams for k, _ in dg}
    out, seen = [], set()
    for key, spec in VOCAB.items():
        if (spec.name.lower() in names or key in ('B1', 'Q1')) and spec.ident not in seen:
            seen.add(spec.ident)
            out.append(spec)
    return out


def probe_all(cache: Any, specs: Any = None) -> Dict[Tuple, Tuple[Any, Any]]:
    """The cache as seen through DNSCache.get for every (relevant) vocabulary record."""
    snap: Dict[Tuple, Tuple[Any, Any]] = {}
    for spec in specs if specs is not None else VOCAB.values():
        if spec.ident in snap:
            continue
        r = cache.get(spec.make(0, 1))
        if r is not None:
            snap[spec.ident] = (r.created, r.ttl)
    return snap


def same_state(ctx: Any, real: Dict[Tuple, Tuple[Any, Any]], model: Dict[Tuple, Tuple[Any, Any]], what: str) -> None:
    for ident in set(real) | set(model):
        if ident not in real:
            ctx.check(False, f'{what}: {ident[:3]} missing from the cache')
        elif ident not in model:
            ctx.check(False, f'{what}: {ident[:3]} in the cache but should not be')
        else:
            rc, rt = real[ident]
            mc, mt = model[ident]
            ctx.check(rc == mc, f'{what}: creation time of {ident[:3]} differs from the arrival-time model')
            ctx.check(rt == mt, f'{what}: TTL of {ident[:3]} differs from the model')
