#!/usr/bin/env python3
"""tools/cover.py [ID...]: which lines of /repo/src/zeroconf do the obligations execute at all?

Development aid (not a check, decides nothing): every E1 obligation is run natively a few times with its
solver variables set to their lower bound, upper bound and pseudo-random values, under coverage.py; lines
never executed by any obligation are code whose mutation no check can notice."""
import importlib, os, random, sys
sys.path[:0] = [os.path.dirname(os.path.dirname(os.path.abspath(__file__))), '/repo/src']
import coverage

cov = coverage.Coverage(source=['/repo/src/zeroconf'], data_file=None, branch=False)
cov.start()
from vkit import env
from vkit.sym import Ctx, ReplayOutOfBounds

class PCtx(Ctx):
    def __init__(self, policy):
        super().__init__('replay')
        self.policy = policy
    def int(self, name, lo, hi):
        assert name not in self.vars, name
        self.bounds[name] = [lo, hi]
        v = self.policy(lo, hi)
        self.vars[name] = v
        return v

ids = [a.upper() for a in sys.argv[1:]] or [f'C{i:02d}' for i in range(1, 21)]
rng = random.Random(1)
policies = [lambda lo, hi: lo, lambda lo, hi: hi, lambda lo, hi: (lo + hi) // 2] + [lambda lo, hi: rng.randint(lo, min(hi, lo + 3000)) for _ in range(3)]
n = err = 0
mods = {pid: importlib.import_module(f'props.{pid.lower()}') for pid in [f'C{i:02d}' for i in range(1, 21)]}  # import everything before any stub is installed
for pid in ids:
    mod = mods[pid]
    for ob in mod.obligations('thorough'):
        if ob.kind != 'sx':
            continue
        if ob.shape.get('cells', 0) and ob.shape['cells'] > 200:
            continue
        for pol in policies:
            ctx = PCtx(pol)
            try:
                ob.fn(ctx)
            except ReplayOutOfBounds:
                pass
            except Exception as e:
                err += 1
            finally:
                env.end()
            n += 1
cov.stop()
print('runs', n, 'exceptions', err)
cov.report(show_missing=True, skip_covered=False)
