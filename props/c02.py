"""C02 - the decoder is total, bounded and faithful on arbitrary datagrams.

Engine E1: the real DNSIncoming.__init__ and answers() run on a datagram whose payload octets (and, in
one template, header fields) are solver variables, presented through vkit.pkt.SymPacket.  An independent
strict RFC 1035 parser in this file reads the same symbolic octets on the same path.
"""
from __future__ import annotations

from typing import Any, Dict, List, Optional, Tuple

import zeroconf._dns as dns
import zeroconf._protocol.incoming as inc
from vkit import env, wire
from vkit.pkt import OCTET_TABLE, SymOctets, SymPacket
from vkit.runner import Obligation
from zeroconf import const
from zeroconf._dns import DNSAddress, DNSHinfo, DNSNsec, DNSPointer, DNSService, DNSText
from zeroconf._protocol.incoming import DNSIncoming

PROPERTY = 'C02'
SUPPORTED = (const._TYPE_A, const._TYPE_AAAA, const._TYPE_PTR, const._TYPE_CNAME, const._TYPE_TXT, const._TYPE_SRV, const._TYPE_HINFO, const._TYPE_NSEC)


class Reject(Exception):
    pass


class Strict:
    """Strict RFC 1035 reader: every length must fit, pointers point strictly backwards, labels <= 63 octets,
    names <= 255 octets, RDLENGTH must match the rdata exactly, no octets after the last entry."""

    def __init__(self, pkt: SymPacket) -> None:
        self.p = pkt
        self.n = len(pkt)

    def need(self, cond: Any) -> None:
        if not cond:
            raise Reject()

    def name(self, off: Any) -> Tuple[List[List[Any]], Any]:
        labels: List[List[Any]] = []
        end: Optional[Any] = None
        pos = off
        total = 0
        hops = 0
        while True:
            self.need(pos < self.n)
            b = self.p[pos]
            if b == 0:
                return labels, (end if end is not None else pos + 1)
            if b < 64:
                self.need(pos + 1 + b <= self.n)
                raw = self.p._slice(pos + 1, pos + 1 + b) if hasattr(self.p, '_slice') else None
                if type(raw) is bytes and len(raw) == b:
                    lab = list(raw)  # a stretch of concrete octets, read at once
                else:
                    lab = []
                    k = 1
                    while k <= b:
                        lab.append(self.p[pos + k])
                        k = k + 1
                labels.append(lab)
                total = total + 1 + b
                # the property fixes names at <= 253 characters counting the trailing dot (RFC 1035's 255-octet wire limit
                # would admit one more); a strict reader "in the property's sense" applies the same limit
                self.need(total <= 253)
                pos = pos + 1 + b
            elif b >= 192:
                self.need(pos + 1 < self.n)
                ptr = (b - 192) * 256 + self.p[pos + 1]
                self.need(ptr < pos)
                self.need(ptr >= 12)
                if end is None:
                    end = pos + 2
                pos = ptr
                hops += 1
                self.need(hops <= 64)
            else:
                raise Reject()

    def u16(self, off: Any) -> Any:
        return self.p[off] * 256 + self.p[off + 1]

    def parse(self) -> Dict[str, Any]:
        self.need(self.n >= 12)
        qd, an, ns, ar = self.u16(4), self.u16(6), self.u16(8), self.u16(10)
        out: Dict[str, Any] = {'id': self.u16(0), 'flags': self.u16(2), 'questions': [], 'records': [], 'unsupported': False}
        off: Any = 12
        i = 0
        while i < qd:
            labels, off = self.name(off)
            self.need(off + 4 <= self.n)
            out['questions'].append((labels, self.u16(off), self.u16(off + 2)))
            off = off + 4
            i += 1
        i = 0
        while i < an + ns + ar:
            labels, off = self.name(off)
            self.need(off + 10 <= self.n)
            t, c = self.u16(off), self.u16(off + 2)
            ttl = self.u16(off + 4) * 65536 + self.u16(off + 6)
            rdlen = self.u16(off + 8)
            off = off + 10
            self.need(off + rdlen <= self.n)
            end = off + rdlen
            rec: Dict[str, Any] = {'name': labels, 'type': t, 'class': c, 'ttl': ttl}
            if t == const._TYPE_A or t == const._TYPE_AAAA:
                self.need(rdlen == (4 if t == const._TYPE_A else 16))
                rec['rdata'] = [self.p[off + k] for k in range(4 if t == const._TYPE_A else 16)]
            elif t == const._TYPE_PTR or t == const._TYPE_CNAME:
                tl, e2 = self.name(off)
                self.need(e2 == end)
                rec['rdata'] = tl
            elif t == const._TYPE_TXT:
                rd = []
                k = 0
                while k < rdlen:
                    rd.append(self.p[off + k])
                    k = k + 1
                rec['rdata'] = rd
            elif t == const._TYPE_SRV:
                self.need(rdlen >= 7)
                tl, e2 = self.name(off + 6)
                self.need(e2 == end)
                rec['rdata'] = (self.u16(off), self.u16(off + 2), self.u16(off + 4), tl)
            else:
                out['unsupported'] = True  # HINFO / NSEC / unknown types: no faithfulness claim for this datagram
                rec['rdata'] = None
            out['records'].append(rec)
            off = end
            i += 1
        self.need(off == self.n)
        return out


def labels_of(name: str) -> Optional[List[Any]]:
    """Map a name assembled by the decoder from opaque labels back to their octet lists."""
    if name == '.':
        return []
    parts = name.split('.')
    if parts[-1] != '':
        return None
    out = []
    for p in parts[:-1]:
        if p.startswith('<') and p.endswith('>'):
            out.append(OCTET_TABLE[int(p[1:-1])])
        elif p == '':
            out.append([])
        else:
            out.append(list(p.encode('utf-8')))
    return out


def same_labels(a: Optional[List[Any]], b: List[List[Any]]) -> Any:
    if a is None or len(a) != len(b):
        return False
    ok = True
    for x, y in zip(a, b):
        if len(x) != len(y):
            return False
        for p, q in zip(x, y):
            ok = ok and (p == q)
    return ok


def text_comparable(labels: List[List[Any]]) -> bool:
    """Whether the library's textual rendering of these labels can be compared octet for octet: labels
    holding solver octets are opaque tokens (always comparable); concrete labels must be valid UTF-8
    without a dot (the library replaces invalid sequences by U+FFFD and joins labels with dots - the
    lossy text form of names is outside this property's claim, see META['outside'])."""
    from vkit.pkt import is_symbolic

    for lab in labels:
        if any(is_symbolic(o) for o in lab):
            continue
        raw = bytes(int(o) for o in lab)
        if b'.' in raw:
            return False
        try:
            raw.decode('utf-8')
        except UnicodeDecodeError:
            return False
    return True


def make(shape: Dict[str, Any]) -> Any:
    P = shape['payload']
    counts = shape['counts']  # qd, an, ns, ar  (ints) or 'symbolic'
    flags = shape.get('flags', 0x8400)

    def fn(ctx: Any) -> None:
        env.begin(ctx, 1000)
        dns.hash = lambda t: 0  # type: ignore[attr-defined]
        del OCTET_TABLE[:]
        calls = [0]
        saved = {}
        for meth in ('_decode_labels_at_offset', '_read_name', '_read_record'):
            orig = getattr(DNSIncoming, meth)
            saved[meth] = orig

            def counting(self: Any, *a: Any, _orig: Any = orig, **kw: Any) -> Any:
                calls[0] += 1
                return _orig(self, *a, **kw)

            setattr(DNSIncoming, meth, counting)
        # pre-state: the process-wide memo of decode-error texts already holds this many entries (after hours of hostile traffic)
        inc._seen_logs.clear()
        for k in range(shape.get('error_memo', 0)):
            inc._seen_logs[f'earlier decode error {k}'] = 1
        try:
            if counts == 'symbolic':
                hdr = [wire.Tok(ctx.int('id', 0, 65535), 2), wire.Tok(ctx.int('flags', 0, 65535), 2)] + [wire.Tok(ctx.int(f'count{i}', 0, 1), 2) for i in range(4)]
            else:
                hdr = [wire.Tok(0, 2), wire.Tok(flags, 2)] + [wire.Tok(c, 2) for c in counts]
            payload = [wire.sym_octet(ctx.int(f'octet{i}', 0, 255)) for i in range(P)]
            if shape.get('record_type') is not None:
                # one record: owner name octet(s), low RDLENGTH octet and rdata symbolic; type, class and TTL fixed (C01 decides their recombination)
                nm, R = shape.get('name_octets', 1), shape['rdata']
                payload = (([wire.sym_octet(ctx.int(f'name{i}', 0, 255)) for i in range(nm)] if nm else [wire.Tok(0, 1)]) + [wire.Tok(shape['record_type'], 2)]
                           + [wire.Tok(0x8001, 2), wire.Tok(0x01020304, 4)]
                           + [wire.Tok(0, 1), wire.sym_octet(ctx.int('rdlength', 0, shape.get('rdata_prefix', 0) + R + 2))]
                           + [wire.Tok(7, 1) for _ in range(shape.get('rdata_prefix', 0))] + [wire.sym_octet(ctx.int(f'rdata{i}', 0, 255)) for i in range(R)])
            pkt = SymPacket(hdr + payload)
            try:
                msg = DNSIncoming(pkt, ('10.0.0.9', 5353), None, 1000)  # type: ignore[arg-type]
                answers = msg.answers()
                questions = msg.questions
            except Exception as e:
                ctx.check(False, f'exception {type(e).__name__} escaped the decoder')
                return
            if ctx.twin:
                return
            ctx.check(calls[0] <= 4 * len(pkt) + 8, 'decoder work exceeds the linear budget (pointer chasing)')
            if msg.valid:
                for q in questions:
                    ctx.check(len(q.name) <= 253, 'decoded question name longer than 253 characters')
                for r in answers:
                    ctx.check(len(r.name) <= 253, 'decoded record name longer than 253 characters')
            # ---- faithfulness against the strict reader
            try:
                ref = Strict(pkt).parse()
            except (Reject, IndexError):
                return
            if ref['unsupported']:
                return
            if not ctx.check(msg.valid, 'a datagram the strict RFC 1035 reader accepts is marked invalid'):
                return
            ctx.check(msg.id == ref['id'] and msg.flags == ref['flags'], 'header id / flags differ from the strict reader')
            ctx.check(len(questions) == len(ref['questions']), 'number of questions differs from the strict reader')
            for q, (labels, t, c) in zip(questions, ref['questions']):
                ctx.check(same_labels(labels_of(q.name), labels), 'question name differs from the strict reader')
                ctx.check(q.type == t and q.class_ == c % 32768 and q.unique == (c >= 32768), 'question type / class differs from the strict reader')
            if not ctx.check(len(answers) == len(ref['records']), f'{len(answers)} records decoded, strict reader has {len(ref["records"])}'):
                return
            for r, w in zip(answers, ref['records']):
                ctx.check(same_labels(labels_of(r.name), w['name']), 'record owner name differs from the strict reader')
                ctx.check(r.type == w['type'] and r.class_ == w['class'] % 32768 and r.unique == (w['class'] >= 32768) and r.ttl == w['ttl'], 'record type / class / TTL differs from the strict reader')
                if isinstance(r, DNSAddress):
                    ctx.check(list(r.address) == w['rdata'] if not isinstance(r.address, SymOctets) else r.address == w['rdata'], 'address differs from the strict reader')
                elif isinstance(r, DNSPointer):
                    ctx.check(same_labels(labels_of(r.alias), w['rdata']), 'pointer target differs from the strict reader')
                elif isinstance(r, DNSText):
                    ctx.check(r.text == w['rdata'] if isinstance(r.text, SymOctets) else list(r.text) == w['rdata'], 'text differs from the strict reader')
                elif isinstance(r, DNSService):
                    pr, we, po, tl = w['rdata']
                    ctx.check(r.priority == pr and r.weight == we and r.port == po and same_labels(labels_of(r.server), tl), 'SRV rdata differs from the strict reader')
        finally:
            for meth, orig in saved.items():
                setattr(DNSIncoming, meth, orig)
            dns.hash = env._native_hash  # type: ignore[attr-defined]
            inc._seen_logs.clear()

    return fn


def make_long_label(shape: Dict[str, Any]) -> Any:
    """A question whose name is one label of symbolic length 1..63 (opaque content): strict readers accept it."""
    from vkit.pkt import Blob

    def fn(ctx: Any) -> None:
        env.begin(ctx, 1000)
        n = ctx.int('label_octets', 1, 63)
        hdr = [wire.Tok(0, 2), wire.Tok(0, 2), wire.Tok(1, 2), wire.Tok(0, 2), wire.Tok(0, 2), wire.Tok(0, 2)]
        pkt = SymPacket(hdr + [wire.Tok(n, 1), Blob(n), wire.Tok(0, 1), wire.Tok(12, 2), wire.Tok(1, 2)])
        try:
            msg = DNSIncoming(pkt, ('10.0.0.9', 5353), None, 1000)  # type: ignore[arg-type]
        except Exception as e:
            ctx.check(False, f'exception {type(e).__name__} escaped the decoder')
            return
        if ctx.twin:
            return
        ctx.check(msg.valid and len(msg.questions) == 1, 'a question whose name is one label of 1..63 octets is not decoded')
        if msg.valid and len(msg.questions) == 1:
            ctx.check(msg.questions[0].type == 12 and msg.questions[0].class_ == 1, 'type / class after a long label not decoded')

    return fn


def _cells(k: int, direction: str, base: int) -> bytes:
    """The concrete pointer cells, built outside the tracer (a traced bytearray becomes a concatenation tree)."""
    import sys

    def build() -> bytes:
        cells = bytearray()
        for i in range(k):
            if direction == 'backward':
                tgt = 12 if i == 0 else base + 2 * (i - 1)
            else:
                tgt = base + 2 * (i + 1)
            cells += bytes([0xC0 | (tgt >> 8), tgt & 0xFF])
        return bytes(cells)

    if 'crosshair.core' in sys.modules:
        from crosshair.tracers import NoTracing

        with NoTracing():
            return build()
    return build()


def _split(cells: bytes, broken: int) -> Tuple[bytes, bytes]:
    import sys

    if 'crosshair.core' in sys.modules:
        from crosshair.tracers import NoTracing

        with NoTracing():
            return cells[: 2 * broken + 1], cells[2 * broken + 2:]
    return cells[: 2 * broken + 1], cells[2 * broken + 2:]


def chain_packet(ctx: Any, k: int, broken: Optional[int], direction: str, prefix: str = '') -> Tuple[SymPacket, Dict[str, Any]]:
    """A response whose second record's owner name is reached through k compression pointers that lie in
    the rdata of a TXT record (backward chain ending at the question's name), or a question whose name is
    reached through k forward pointers.  The low octet of cell `broken` is a solver variable: the chain
    then lands on any octet of a 256-octet window (another cell: shortcut or cycle; the middle of a cell;
    the header)."""
    label = wire.sym_octet(ctx.int(prefix + 'label_octet', 0, 255))
    # with a broken cell the chain may land on any octet; id and TTL are then concrete (as length octets they would only multiply paths)
    ident = wire.Tok(ctx.int(prefix + 'id', 0, 65535) if broken is None else 0x1234, 2)
    info: Dict[str, Any] = {}
    if direction == 'backward':
        base = 30
        cells = _cells(k, direction, base)
        last = base + 2 * (k - 1)
        hdr = [ident, wire.Tok(0x8400, 2), wire.Tok(1, 2), wire.Tok(2, 2), wire.Tok(0, 2), wire.Tok(0, 2)]
        elems: List[Any] = hdr + [wire.Tok(1, 1), label, wire.Tok(0, 1), wire.Tok(12, 2), wire.Tok(1, 2)]
        elems += [wire.Tok(0, 1), wire.Tok(16, 2), wire.Tok(1, 2), wire.Tok(120, 4), wire.Tok(2 * k, 2)]
        if broken is None:
            elems.append(cells)
        else:
            before, after = _split(cells, broken)
            elems += [before, wire.sym_octet(ctx.int(prefix + 'broken_low_octet', 0, 255)), after]
        elems += [wire.Tok(0xC000 | last, 2), wire.Tok(1, 2), wire.Tok(0x8001, 2), wire.Tok(ctx.int(prefix + 'ttl', 0, 2**32 - 1) if broken is None else 4500, 4), wire.Tok(4, 2), wire.Tok(0x0A000001, 4)]
        info['hops'] = k + 1
    else:
        # question name = pointer to cell 0; cell i -> cell i+1; the last cell is the label
        base = 18
        cells = _cells(k, direction, base)
        hdr = [ident, wire.Tok(0, 2), wire.Tok(1, 2), wire.Tok(0, 2), wire.Tok(0, 2), wire.Tok(0, 2)]
        elems = hdr + [wire.Tok(0xC000 | base, 2), wire.Tok(12, 2), wire.Tok(1, 2)]
        if broken is None:
            elems.append(cells)
        else:
            before, after = _split(cells, broken)
            elems += [before, wire.sym_octet(ctx.int(prefix + 'broken_low_octet', 0, 255)), after]
        elems += [wire.Tok(1, 1), label, wire.Tok(0, 1)]
        info['hops'] = k + 1
    return SymPacket(elems), info


def make_chain(shape: Dict[str, Any]) -> Any:
    """Deep compression graphs: the structure (k cells) is the shape, the id, a label octet, a TTL and the
    low octet of one pointer are solver variables.  Oracle as for the payload templates."""
    k, broken, direction = shape['cells'], shape.get('broken'), shape['direction']

    def fn(ctx: Any) -> None:
        env.begin(ctx, 1000)
        dns.hash = lambda t: 0  # type: ignore[attr-defined]
        del OCTET_TABLE[:]
        calls = [0]
        saved = {}
        for meth in ('_decode_labels_at_offset', '_read_name', '_read_record'):
            orig = getattr(DNSIncoming, meth)
            saved[meth] = orig

            def counting(self: Any, *a: Any, _orig: Any = orig, **kw: Any) -> Any:
                calls[0] += 1
                return _orig(self, *a, **kw)

            setattr(DNSIncoming, meth, counting)
        try:
            pkt, info = chain_packet(ctx, k, broken, direction)
            try:
                msg = DNSIncoming(pkt, ('10.0.0.9', 5353), None, 1000)  # type: ignore[arg-type]
                answers = msg.answers()
                questions = msg.questions
            except Exception as e:
                ctx.check(False, f'exception {type(e).__name__} escaped the decoder')
                return
            if ctx.twin:
                return
            ctx.check(calls[0] <= 4 * len(pkt) + 8, 'decoder work exceeds the linear budget (pointer chasing)')
            if msg.valid:
                for q in questions:
                    ctx.check(len(q.name) <= 253, 'decoded question name longer than 253 characters')
                for r in answers:
                    ctx.check(len(r.name) <= 253, 'decoded record name longer than 253 characters')
            try:
                ref = Strict(pkt).parse()
            except (Reject, IndexError):
                return
            # names holding octets that are not valid UTF-8 (here: pointer cells read as label content) have no faithful text form in the
            # library - it replaces them, and since fix 82d198a rejects a label that no longer fits 63 octets once replaced - so the
            # comparison with the octet-level reader is made only for datagrams whose names are all text (mDNS names are UTF-8, RFC 6762 16)
            all_names = [lb for lb, _, _ in ref['questions']] + [w['name'] for w in ref['records']] + [w['rdata'] for w in ref['records'] if w['type'] in (12, 5)]
            if not all(text_comparable(n) for n in all_names):
                return
            if not ctx.check(msg.valid, 'a datagram the strict RFC 1035 reader accepts is marked invalid'):
                return
            ctx.check(msg.id == ref['id'], 'header id differs from the strict reader')
            ctx.check(len(questions) == len(ref['questions']), 'number of questions differs from the strict reader')
            for q, (labels, t, c) in zip(questions, ref['questions']):
                if text_comparable(labels):
                    ctx.check(same_labels(labels_of(q.name), labels), 'question name differs from the strict reader')
            if not ctx.check(len(answers) == len(ref['records']), f'{len(answers)} records decoded, strict reader has {len(ref["records"])}'):
                return
            for r, w in zip(answers, ref['records']):
                if text_comparable(w['name']):
                    ctx.check(same_labels(labels_of(r.name), w['name']), 'record owner name differs from the strict reader')
                ctx.check(r.type == w['type'] and r.ttl == w['ttl'], 'record type / TTL differs from the strict reader')
        finally:
            for meth, orig in saved.items():
                setattr(DNSIncoming, meth, orig)
            dns.hash = env._native_hash  # type: ignore[attr-defined]

    return fn


def long_name_packet(ctx: Any, lens: List[int], where: str, window: int = 0) -> SymPacket:
    """A response with two records around one long name made of concrete labels of the given lengths (text length =
    sum + count).  where = 'rdata': the long name is the PTR target of record 1 and the owner of record 2 is a bare
    pointer whose low octet is a solver variable (it lands on the long name, on one of its label boundaries, inside
    a label, on the header ...); 'owner': the long name is the owner of record 1 and record 2 points into it."""
    name = b''.join(bytes([n]) + b'a' * n for n in lens) + b'\x00'
    ident = wire.Tok(0x1234, 2)  # concrete: the pointer may land on the header, where a symbolic octet read as a length only multiplies paths
    hdr = [ident, wire.Tok(0x8400, 2), wire.Tok(0, 2), wire.Tok(2, 2), wire.Tok(0, 2), wire.Tok(0, 2)]
    fixed = [wire.Tok(12, 2), wire.Tok(1, 2), wire.Tok(4500, 4)]
    if where == 'rdata':
        rec1 = [wire.Tok(1, 1), b'o', wire.Tok(0, 1)] + fixed + [wire.Tok(len(name), 2), name]
    else:
        rec1 = [name] + fixed + [wire.Tok(3, 2), wire.Tok(1, 1), b't', wire.Tok(0, 1)]
    rec2 = [wire.Tok(0xC0, 1), wire.sym_octet(ctx.int('pointer_low_octet', 128 * window, 128 * window + 127)), wire.Tok(1, 2), wire.Tok(0x8001, 2), wire.Tok(120, 4), wire.Tok(4, 2), wire.Tok(0x0A000001, 4)]
    return SymPacket(hdr + rec1 + rec2)


def make_long_name(shape: Dict[str, Any]) -> Any:
    lens, where, window = shape['labels'], shape['where'], shape.get('window', 0)

    def fn(ctx: Any) -> None:
        env.begin(ctx, 1000)
        dns.hash = lambda t: 0  # type: ignore[attr-defined]
        del OCTET_TABLE[:]
        try:
            pkt = long_name_packet(ctx, lens, where, window)
            try:
                msg = DNSIncoming(pkt, ('10.0.0.9', 5353), None, 1000)  # type: ignore[arg-type]
                answers = msg.answers()
            except Exception as e:
                ctx.check(False, f'exception {type(e).__name__} escaped the decoder')
                return
            if ctx.twin:
                return
            if msg.valid:
                for r in answers:
                    ctx.check(len(r.name) <= 253, 'decoded record name longer than 253 characters')
                    alias = getattr(r, 'alias', None)
                    if alias is not None:
                        ctx.check(len(alias) <= 253, 'decoded pointer target longer than 253 characters')
            try:
                ref = Strict(pkt).parse()
            except (Reject, IndexError):
                return
            if not ctx.check(msg.valid, 'a datagram the strict RFC 1035 reader accepts is marked invalid'):
                return
            if not ctx.check(len(answers) == len(ref['records']), f'{len(answers)} records decoded, strict reader has {len(ref["records"])}'):
                return
            for r, w in zip(answers, ref['records']):
                ctx.check(same_labels(labels_of(r.name), w['name']), 'record owner name differs from the strict reader')
                if isinstance(r, DNSPointer):
                    ctx.check(same_labels(labels_of(r.alias), w['rdata']), 'pointer target differs from the strict reader')
        finally:
            dns.hash = env._native_hash  # type: ignore[attr-defined]

    return fn


def make_two_questions(shape: Dict[str, Any]) -> Any:
    """Two questions with concrete names whose type and class words are solver variables: per-question QU bit, type, class and the
    message-level "has a QU question" flag (which the duplicate guard of the listener relies on) against the strict reader."""

    def fn(ctx: Any) -> None:
        env.begin(ctx, 7777)
        dns.hash = lambda t: 0  # type: ignore[attr-defined]
        del OCTET_TABLE[:]
        try:
            hdr = [wire.Tok(ctx.int('id', 0, 65535), 2), wire.Tok(0, 2), wire.Tok(2, 2), wire.Tok(0, 2), wire.Tok(0, 2), wire.Tok(0, 2)]
            body: List[Any] = []
            for i in range(2):
                body += [wire.Tok(1, 1), b'ab'[i:i + 1], wire.Tok(0, 1), wire.Tok(ctx.int(f'type{i}', 0, 65535), 2), wire.Tok(ctx.int(f'class{i}', 0, 65535), 2)]
            pkt = SymPacket(hdr + body)
            try:
                msg = DNSIncoming(pkt, ('10.0.0.9', 5353), None, 1000)  # type: ignore[arg-type]
                questions = msg.questions
            except Exception as e:
                ctx.check(False, f'exception {type(e).__name__} escaped the decoder')
                return
            if ctx.twin:
                return
            ref = Strict(pkt).parse()
            if not ctx.check(msg.valid and len(questions) == 2, 'two well-formed questions are not decoded'):
                return
            for q, (labels, t, c) in zip(questions, ref['questions']):
                ctx.check(q.type == t and q.class_ == c % 32768 and q.unique == (c >= 32768), 'question type / class / QU bit differs from the strict reader')
            ctx.check(msg.has_qu_question() == any(c >= 32768 for _, _, c in ref['questions']), 'the message-level QU flag is not "some question has the QU bit"')
        finally:
            dns.hash = env._native_hash  # type: ignore[attr-defined]

    return fn


def obligations(tier: str) -> List[Obligation]:
    obs = []
    obs.append(Obligation('decode[two questions;symbolic type and class words]', make_two_questions({}), 'decode-questions', {}, timeout=120))
    P = 5 if tier == 'quick' else 7
    templates = [
        ('question', [1, 0, 0, 0], 0),
        ('answer', [0, 1, 0, 0], 0x8400),
        ('question+answer', [1, 1, 0, 0], 0),
        ('two-answers', [0, 2, 0, 0], 0x8400),
        ('authority+additional', [0, 0, 1, 1], 0),
    ]
    for name, counts, flags in templates:
        for p in sorted({3, P} if tier == 'quick' else {3, 5, P}):
            shape = {'payload': p, 'counts': counts, 'flags': flags}
            obs.append(Obligation(f'decode[{name};payload={p}]', make(shape), 'decode', shape, timeout=280 if tier == 'quick' else 1500))
    for memo in ((600,) if tier == 'quick' else (511, 512, 513, 5000)):
        shape = {'payload': 3, 'counts': [1, 0, 0, 0], 'flags': 0, 'error_memo': memo}
        obs.append(Obligation(f'decode[question;payload=3;error-memo={memo}]', make(shape), 'decode', shape, timeout=280 if tier == 'quick' else 1500))
    rts = [('A', 1, 1, 3), ('AAAA', 28, 14, 2), ('PTR', 12, 0, 3), ('TXT', 16, 0, 3), ('SRV', 33, 6, 2), ('HINFO', 13, 0, 2), ('NSEC', 47, 0, 3), ('unknown', 99, 0, 3)]
    for name, t, prefix, R in rts:
        for nm in (((0,) if name in ('AAAA', 'HINFO') else (1,)) if tier == 'quick' else (1, 2)):
            shape = {'payload': 0, 'counts': [0, 1, 0, 0], 'flags': 0x8400, 'record_type': t, 'rdata_prefix': prefix, 'rdata': R if tier == 'quick' or nm == 2 or name in ('PTR', 'NSEC') else R + 1, 'name_octets': nm}  # (PTR / NSEC with 4 free rdata octets do not finish in 25 min)
            obs.append(Obligation(f'decode[record {name};name={nm};rdata={prefix}+{shape["rdata"]}]', make(shape), 'decode-record', shape, timeout=280 if tier == 'quick' else 1500))
    obs.append(Obligation('label-of-any-legal-length', make_long_label({}), 'long-label', {}, timeout=120))
    chains = [('backward', 3, None), ('backward', 64, None), ('backward', 65, None), ('backward', 1100, None), ('forward', 3, None), ('forward', 1100, None),
              ('backward', 8, 4), ('forward', 8, 4)]
    if tier != 'quick':
        chains += [('backward', 4460, None), ('forward', 4470, None), ('backward', 127, None), ('backward', 128, None), ('backward', 129, None), ('backward', 130, None),
                   ('forward', 127, None), ('forward', 128, None), ('forward', 129, None), ('backward', 24, 12), ('forward', 24, 12), ('backward', 60, 30), ('forward', 60, 30), ('backward', 1100, 1090), ('forward', 1100, 10)]
    for direction, k, broken in chains:
        shape = {'cells': k, 'broken': broken, 'direction': direction}
        obs.append(Obligation(f'chain[{direction};cells={k};broken={broken if broken is not None else "-"}]', make_chain(shape), 'chain', shape, timeout=280 if tier == 'quick' else 1500))
    # names of 253 (longest legal), 254 and about 300 characters
    longs = [('253', [63, 63, 63, 60]), ('254', [63, 63, 63, 61]), ('300', [63, 63, 63, 63, 43])]
    for label, lens in longs:
        for where in (('rdata', 'owner') if (tier != 'quick' or label != '300') else ('rdata',)):
            for window in (0, 1):  # the pointer's low octet ranges over 128 * window .. 128 * window + 127
                shape = {'labels': lens, 'where': where, 'window': window}
                obs.append(Obligation(f'long-name[{label};{where};window={window}]', make_long_name(shape), 'long-name', shape, timeout=280 if tier == 'quick' else 1500))
    for p in ((0, 1) if tier == 'quick' else (0, 1, 2)):
        shape = {'payload': p, 'counts': 'symbolic'}
        obs.append(Obligation(f'decode[symbolic-header;payload={p}]', make(shape), 'decode-header', shape, timeout=280 if tier == 'quick' else 1500))
    return obs


META = {
    'explanation': 'The real DNSIncoming constructor and answers() run on datagrams given as vkit.pkt.SymPacket: a concrete 12-octet header (five count templates) followed '
    'by P payload octets that are all z3 integers 0..255 (P = 3, 5 quick; 3, 5, 7 thorough), and a template with symbolic id / flags / counts 0..1 and 0..2 payload octets. '
    'CrossHair exhausts every way the octets can tile into labels, pointers, fixed fields and rdata. Checked on every path: no exception leaves the decoder; calls of '
    '_decode_labels_at_offset + _read_name + _read_record stay within 4 * length + 8; names <= 253 characters; whenever the strict RFC 1035 reader in props/c02.py accepts the '
    'same octets and only A / AAAA / PTR / CNAME / TXT / SRV records occur, header, questions and records equal the strict reader\'s (names compared label by label as octets). chain[*]: deep compression graphs - a response whose second owner name is reached through k backward pointers lying in TXT rdata, or a question reached '
    'through k forward pointers, k in 3..4470 (the whole 8966-octet datagram), id / one label octet / TTL symbolic; in the broken variants the low octet of one pointer is symbolic so that the chain '
    'lands on any octet of a 256-octet window (shortcut, cycle, middle of a cell, header); same oracle (names compared only when their text form is lossless).',
    'functions': [
        'zeroconf._protocol.incoming.DNSIncoming.__init__/_initial_parse/_read_header/_read_questions/_read_others/_read_record/_read_name/_decode_labels_at_offset/'
        '_read_string/_read_character_string/_read_bitmap/answers/_log_exception_debug', 'DNSQuestion/DNSRecord constructors',
    ],
    'bounds': {'datagram length': '12 + P octets, P <= 5 (quick) / 7 (thorough); record templates: one record of a fixed type (A, AAAA, PTR, TXT, SRV, HINFO, NSEC, unknown) with symbolic owner octet(s), RDLENGTH and 2..4 rdata octets after a fixed rdata prefix (class / TTL fixed), RDLENGTH 0..rdata+2', 'octets': [0, 255], 'header': 'five concrete count templates; one template with symbolic id, flags and counts 0..1', 'chain cells': 'quick 3, 64, 65, 1100 (plain), 8 (broken); thorough also 127..130, 4460 / 4470 (plain), 24, 60, 1100 (broken)'},
    'outside': ['datagrams with more than 7 free payload octets, except the enumerated compression graphs of the chain[*] family (3..4470 pointer cells in a row, forward or backward, one low octet symbolic in the broken variants): other deep graphs (trees, several chains sharing cells, chains interleaved with labels) are NOT reached',
                'the text of labels (decode("utf-8", "replace") is opaque: names are compared as octets)', 'faithfulness for HINFO / NSEC / unknown record types', 'the oversize guard (C15)'],
    'stubs': ['datagram presented as vkit.pkt.SymPacket (len / index / slice over solver octets); label text is an opaque token', '`hash` in zeroconf._dns returns 0', 'counting wrappers around three decoder methods'],
    'float_sites': [],
    'assumptions': ['CrossHair 0.0.110 / z3 5.1.0', 'bit-operation handlers of vkit.chpatch'],
}
