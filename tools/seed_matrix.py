#!/usr/bin/env python3
"""Runs, for every seeded change, the quick check(s) of the property it breaks against /repo with the
patch applied (git apply / git apply -R), and writes seeded/<id>/meta.json.  Development aid: it
modifies the /repo working tree while it runs and restores it afterwards."""
import json, os, re, subprocess, sys, time

VERIF = os.path.dirname(os.path.dirname(os.path.abspath(__file__)))
EXTRA = {'C01': ['C14'], 'C13-1': ['C18'], 'C14': ['C01'], 'C07': ['C08'], 'C07-3': ['C10', 'C04'], 'C07-4': ['C04'], 'C20-5': ['C05'], 'C18-4': ['C13'], 'C19-6': ['C09'], 'C09-6': ['C11'], 'C19-5': ['C18'], 'C07-5': ['C03'], 'C13-5': ['C13'], 'C20-7': ['C01'], 'C03-6': ['C08'], 'C16-5': ['C10'], 'C18-3': ['C05', 'C06'], 'C08-5': ['C20'], 'C12-5': ['C05'], 'C15-4': ['C12'], 'C15-6': ['C01'], 'C11-6': ['C02'], 'C05-7': ['C01'], 'C01-8': ['C13'], 'C03-8': ['C08'], 'C20-9': ['C08'], 'C12-7': ['C05'], 'C09-4': ['C03'], 'C08-7': ['C03'], 'C03-7': ['C08'], 'C04-6': ['C15']}
NEEDS = {}
import shutil, tempfile
BACKUP = tempfile.mkdtemp()
shutil.copytree(os.path.join(VERIF, 'evidence'), os.path.join(BACKUP, 'evidence'))  # evidence must only come from the unchanged tree
seeds = sorted(os.listdir(os.path.join(VERIF, 'seeded')))
only = sys.argv[1:] 
for sd in seeds:
    if only and sd not in only:
        continue
    d = os.path.join(VERIF, 'seeded', sd)
    pid = sd.split('-')[0]
    checks = [pid] + EXTRA.get(sd, EXTRA.get(pid, []))
    notes = open(os.path.join(d, 'notes.md')).read() if os.path.exists(os.path.join(d, 'notes.md')) else ''
    ver = json.load(open(os.path.join(d, 'verify.json'))) if os.path.exists(os.path.join(d, 'verify.json')) else {}
    if subprocess.call(['git', '-C', '/repo', 'apply', os.path.join(d, 'patch.diff')]) != 0:
        print(sd, 'PATCH DOES NOT APPLY'); continue
    results = {}
    try:
        for c in checks:
            t0 = time.time()
            cp = subprocess.run(['./check', c, '--tier', 'quick'], cwd=VERIF, capture_output=True, text=True)
            viol = re.findall(r'^VIOLATION property=(\S+) replay=\S*/([^/]+)\.json', cp.stdout, re.M)
            results[c] = {'exit': cp.returncode, 'violations': [v[1] for v in viol], 'wall_s': round(time.time() - t0, 1)}
    finally:
        subprocess.call(['git', '-C', '/repo', 'apply', '-R', os.path.join(d, 'patch.diff')])
    caught = [c for c, r in results.items() if r['exit'] == 1 and r['violations']]
    first = notes.strip().split('\n')
    meta = {
        'seed': sd, 'breaks_property': pid,
        'origin': 'independent sub-agent given only the property text and a scratch worktree of /repo (tools/seed_prompt.py)',
        'needs_to_manifest': next((l for l in first if l and not l.startswith('#')), '')[:600],
        'independently_confirmed': ver,
        'what_i_ran': 'tools/seed_verify.sh (scratch worktree of /repo HEAD: patch applies, demo.py exits 1 with it and 0 without, full test suite passes with it); tools/seed_matrix.py (git -C /repo apply, ./check <id> --tier quick, git apply -R)',
        'checks': results, 'caught_by': caught,
    }
    json.dump(meta, open(os.path.join(d, 'meta.json'), 'w'), indent=1)
    print(sd, 'caught by', caught or 'NOTHING', {c: r['violations'][:3] for c, r in results.items()}, flush=True)
shutil.rmtree(os.path.join(VERIF, 'evidence'))
shutil.copytree(os.path.join(BACKUP, 'evidence'), os.path.join(VERIF, 'evidence'))
shutil.rmtree(BACKUP)
subprocess.call(['git', '-C', '/repo', 'status', '--short'])
