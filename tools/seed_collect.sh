#!/bin/sh
# tools/seed_collect.sh <worktree> <PID>: copy out/1, out/2 of a finished sub-agent worktree into seeded/<PID>-<n>/ (next free n),
# rewriting the worktree path inside demo.py / notes.md to a neutral placeholder is NOT done: demos take PYTHONPATH from the caller.
wt=$1; pid=$2
for k in 1 2 3; do
  [ -f "$wt/out/$k/patch.diff" ] || continue
  n=1; while [ -d "/verif/seeded/$pid-$n" ]; do n=$((n+1)); done
  d=/verif/seeded/$pid-$n; mkdir -p $d
  cp "$wt/out/$k/patch.diff" "$wt/out/$k/demo.py" $d/
  [ -f "$wt/out/$k/notes.md" ] && cp "$wt/out/$k/notes.md" $d/
  echo "$d <- $wt/out/$k"
done
