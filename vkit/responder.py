"""Declarative reference responder (RFC 6762 section 6 / RFC 6763 section 12, as property C03 states it)
and helpers to register services on a socket-less instance and to inject queries."""
from __future__ import annotations

from typing import Any, Dict, List, Optional, Sequence, Tuple

from zeroconf import const
from zeroconf._dns import DNSQuestion
from zeroconf._services.info import ServiceInfo

from .build import IN, UNIQUE, Spec, mk_incoming

ENUM = '_services._dns-sd._udp.local.'
V4A, V4B, V4C = b'\x0a\x00\x00\x01', b'\x0a\x00\x00\x02', b'\x0a\x00\x00\x03'
V6A = b'\xfe\x80' + b'\x00' * 13 + b'\x01'
V6B = b'\x20\x01\x0d\xb8' + b'\x00' * 11 + b'\x02'


class Svc:
    """Concrete description of one registered service; TTLs may be symbolic."""

    def __init__(self, key: str, type_: str, name: str, server: str, port: int = 80, v4: Sequence[bytes] = (), v6: Sequence[bytes] = (),
                 text: bytes = b'\x05path=', host_ttl: Any = 120, other_ttl: Any = 4500) -> None:
        # server None: the host name defaults to the instance name (ServiceInfo.set_server_if_missing)
        self.key, self.type, self.name, self.server, self.port = key, type_, name, server if server is not None else name, port
        self.explicit_server = server
        self.v4, self.v6, self.text = list(v4), list(v6), text
        self.host_ttl, self.other_ttl = host_ttl, other_ttl

    def info(self) -> ServiceInfo:
        info = ServiceInfo(self.type, self.name, self.port, 0, 0, self.text, self.explicit_server, self.host_ttl, self.other_ttl,
                           addresses=self.v4 + self.v6)
        if self.explicit_server is None:
            info.set_server_if_missing()  # what async_register_service does before the registry sees the object
        return info

    # expected records: (Spec, ttl, unique)
    def ptr(self) -> Tuple[Spec, Any, bool]:
        return Spec('PTR', self.type, alias=self.name), self.other_ttl, False

    def srv(self) -> Tuple[Spec, Any, bool]:
        return Spec('SRV', self.name, priority=0, weight=0, port=self.port, server=self.server), self.host_ttl, True

    def txt(self) -> Tuple[Spec, Any, bool]:
        return Spec('TXT', self.name, text=self.text), self.other_ttl, True

    def addrs(self, type_: Optional[int] = None) -> List[Tuple[Spec, Any, bool]]:
        out = []
        if type_ in (None, const._TYPE_A):
            out += [(Spec('A', self.server, address=a), self.host_ttl, True) for a in self.v4]
        if type_ in (None, const._TYPE_AAAA):
            out += [(Spec('AAAA', self.server, address=a), self.host_ttl, True) for a in self.v6]
        return out

    def missing(self) -> List[int]:
        m = []
        if not self.v4:
            m.append(const._TYPE_A)
        if not self.v6:
            m.append(const._TYPE_AAAA)
        return m

    def nsec(self) -> List[Tuple[Spec, Any, bool]]:
        m = self.missing()
        if not m:
            return []
        return [(Spec('NSEC', self.name, next_name=self.name, rdtypes=m), self.host_ttl, True)]

    def addrs_and_nsec(self) -> List[Tuple[Spec, Any, bool]]:
        return self.addrs() + self.nsec()

    def all_records(self) -> List[Tuple[Spec, Any, bool]]:
        return [self.ptr(), self.srv(), self.txt()] + self.addrs_and_nsec()


class Q:
    def __init__(self, name: str, type_: int, qu: bool = False) -> None:
        self.name, self.type, self.qu = name, type_, qu

    def make(self) -> DNSQuestion:
        return DNSQuestion(self.name, self.type, IN | UNIQUE if self.qu else IN)

    def __repr__(self) -> str:
        return f'{const._TYPES.get(self.type, self.type)}?{self.name}{"/QU" if self.qu else ""}'


Expected = List[Tuple[Spec, Any, bool, List[Tuple[Spec, Any, bool]]]]


def reference_answers(services: List[Svc], q: Q, known: List[Tuple[Spec, Any]]) -> Expected:
    """(answer spec, ttl, unique, additionals) the responder must offer for one question.

    known: the querier's known answers (spec, ttl).  An answer is withheld when the querier lists the
    same record with more than half of the answer's TTL.
    """
    qn = q.name.lower()

    def suppressed(spec: Spec, ttl: Any) -> bool:
        for ks, kttl in known:
            if ks.ident == spec.ident and 2 * kttl > ttl:
                return True
        return False

    out: Expected = []
    if q.type == const._TYPE_PTR and qn == ENUM:
        seen = []
        for s in services:
            if s.type.lower() in seen:
                continue
            seen.append(s.type.lower())
            spec = Spec('PTR', ENUM, alias=s.type)
            if not suppressed(spec, const._DNS_OTHER_TTL):
                out.append((spec, const._DNS_OTHER_TTL, False, []))
        return out
    if q.type in (const._TYPE_PTR, const._TYPE_ANY):
        for s in services:
            if s.type.lower() == qn:
                spec, ttl, u = s.ptr()
                if not suppressed(spec, ttl):
                    out.append((spec, ttl, u, [s.srv(), s.txt()] + s.addrs_and_nsec()))
    if q.type in (const._TYPE_A, const._TYPE_AAAA):
        for s in services:
            if s.server.lower() != qn:
                continue
            asked = [a for a in s.addrs(q.type) if not suppressed(a[0], a[1])]
            other = s.addrs(const._TYPE_AAAA if q.type == const._TYPE_A else const._TYPE_A)
            if asked:
                for spec, ttl, u in asked:
                    out.append((spec, ttl, u, other + s.nsec()))
            elif q.type in s.missing():
                spec, ttl, u = s.nsec()[0]
                out.append((spec, ttl, u, []))
    if q.type in (const._TYPE_SRV, const._TYPE_TXT, const._TYPE_ANY):
        for s in services:
            if s.name.lower() != qn:
                continue
            if q.type in (const._TYPE_SRV, const._TYPE_ANY):
                spec, ttl, u = s.srv()
                if not suppressed(spec, ttl):
                    out.append((spec, ttl, u, s.addrs_and_nsec()))
            if q.type in (const._TYPE_TXT, const._TYPE_ANY):
                spec, ttl, u = s.txt()
                if not suppressed(spec, ttl):
                    out.append((spec, ttl, u, []))
    return out


def mk_query(now: Any, questions: Sequence[Q], known: Sequence[Any] = (), source: Tuple[str, int] = ('10.0.0.9', 5353), id_: int = 0,
             truncated: bool = False, probe_authorities: int = 0, data: bytes = b'') -> Any:
    flags = const._FLAGS_QR_QUERY | (const._FLAGS_TC if truncated else 0)
    return mk_incoming(now, list(known), [q.make() for q in questions], flags, source, id_, probe_authorities, data)


def spec_of(rec: Any, candidates: Sequence[Spec]) -> Optional[Spec]:
    for s in candidates:
        if s.make(0, 1) == rec:
            return s
    return None
