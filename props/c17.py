"""C17 - shutdown is complete and quiet.

Engine E1: the real AsyncZeroconf.async_close coroutine (remove browsers, unregister all with goodbyes,
Zeroconf._async_close, AsyncEngine._async_close) on the fake loop, requested at a symbolic instant while
something is in progress; afterwards hours of virtual time and further datagrams are delivered.
"""
from __future__ import annotations

from typing import Any, Dict, List, Tuple

from vkit import env
from vkit.build import VOCAB, mk_incoming
from vkit.responder import V4A, V4B, Q, Svc, mk_query
from vkit.runner import Obligation
from zeroconf import const
from zeroconf._services import ServiceListener
from zeroconf._services.info import AsyncServiceInfo
from zeroconf._updates import RecordUpdateListener
from zeroconf.asyncio import AsyncServiceBrowser, AsyncZeroconf

PROPERTY = 'C17'
T1, T2 = '_http._tcp.local.', '_ipp._tcp.local.'
N1, N2 = 'Alpha._http._tcp.local.', 'Beta._http._tcp.local.'
PTR, SRV, TXT = const._TYPE_PTR, const._TYPE_SRV, const._TYPE_TXT
HOURS = 3 * 3600 * 1000


class Listener(ServiceListener):
    def __init__(self, log: List[Any], loop: Any) -> None:
        self.log, self.loop = log, loop

    def add_service(self, zc: Any, type_: str, name: str) -> None:
        self.log.append((self.loop.now_ms, 'add', name))

    def remove_service(self, zc: Any, type_: str, name: str) -> None:
        self.log.append((self.loop.now_ms, 'remove', name))

    def update_service(self, zc: Any, type_: str, name: str) -> None:
        self.log.append((self.loop.now_ms, 'update', name))


class RecListener(RecordUpdateListener):
    def __init__(self, log: List[Any], loop: Any) -> None:
        self.log, self.loop = log, loop

    def async_update_records(self, zc: Any, now: Any, records: List[Any]) -> None:
        self.log.append((self.loop.now_ms, 'records', len(records)))

    def async_update_records_complete(self) -> None:
        pass


def make(shape: Dict[str, Any]) -> Any:
    doing: List[str] = shape['in_progress']
    close_max: int = shape.get('close_max', 1500)

    def fn(ctx: Any) -> None:
        t0 = ctx.int('t0', 5000, 2**40)
        loop = env.begin(ctx, t0)
        env.use_token_packets(True)
        zc = env.make_zc(loop)
        zc.engine._async_schedule_next_cache_cleanup()
        aiozc = AsyncZeroconf(zc=zc)
        proto = zc.engine.protocols[0]
        s1 = Svc('S1', T1, N1, 'alpha.local.', 80, [V4A], [])
        s2 = Svc('S2', T1, N2, 'beta.local.', 81, [V4B], [])
        cb_log: List[Any] = []
        user_tasks: List[Any] = []
        registered_specs: List[Any] = []
        if 'starting' in doing:
            # the engine is still creating its endpoints: it reports "running" a symbolic 0..900 ms later (async_close waits up to 1 s for
            # that, a registration up to the 9 s start-up timeout)
            zc.engine.running_event.clear()
            loop.call_at(env.Sec(t0 + ctx.int('start_delay', 0, 900)), zc.engine.running_event.set)
        if 'registered' in doing or 'queued-answers' in doing or 'deferred-tc' in doing:
            zc.registry.async_add(s1.info())
            registered_specs.append(s1)
        if 'registering' in doing:
            user_tasks.append(loop.create_task(aiozc.async_register_service(s2.info())))
        if 'browser' in doing:
            loop.create_task(aiozc.async_add_service_listener(T1, Listener(cb_log, loop)))
            loop.create_task(aiozc.async_add_service_listener(T2, Listener(cb_log, loop)))
        if 'raw-listener' in doing:
            # a record-update listener the application attached itself, and a cached record that runs out after the close
            zc.record_manager.async_add_listener(RecListener(cb_log, loop), None)
            zc.cache.async_add_records([VOCAB['A1'].make(15, t0, True)])
        if 'own-browser' in doing:
            # a browser the application created itself and never cancels: async_close does not know it; the `done`
            # gate of the scheduler passes is all that stops it.  A cached pointer gives it a refresh schedule.
            from zeroconf._services.browser import _ServiceBrowserBase

            zc.cache.async_add_records([VOCAB['P2'].make(ctx.int('own_ptr_ttl', 1125, 7200), t0, False)])
            own = _ServiceBrowserBase(zc, [T1], handlers=[lambda zeroconf, service_type, name, state_change: cb_log.append((loop.now_ms, state_change.name, name))])
            own._async_start()
        if 'lookup' in doing:
            info = AsyncServiceInfo(T1, 'Gamma._http._tcp.local.')
            user_tasks.append(loop.create_task(info.async_request(zc, 3000)))
        loop.run_ready()
        if 'queued-answers' in doing:
            loop.advance_to(t0 + ctx.int('query_offset', 0, 1000))
            zc.cache.async_add_records([s1.txt()[0].make(4500, loop.now_ms - ctx.int('txt_age', 0, 999), True)])
            for qq in ([Q(T1, PTR)], [Q(N1, TXT)]):
                m = mk_query(loop.now_ms, qq, [], ('10.0.0.9', 5353), data=str(qq).encode())
                proto.handle_query_or_defer(m, '10.0.0.9', 5353, proto.transport, ())
        if 'deferred-tc' in doing:
            loop.advance_to(t0 + ctx.int('tc_offset', 0, 1000))
            m = mk_query(loop.now_ms, [Q(T1, PTR)], [], ('10.0.0.7', 5353), truncated=True, data=b'tc')
            proto.handle_query_or_defer(m, '10.0.0.7', 5353, proto.transport, ())
        close_at = loop.now_ms + ctx.int('close_offset', 0, close_max)
        if shape.get('close_first') and close_at > loop.now_ms:
            # the close request is already queued when the timers due at that very instant are collected
            loop.advance_to(close_at - 1)
            loop.now_ms = close_at
        else:
            loop.advance_to(close_at)
        in_registry_at_close = [i.name for i in zc.registry.async_get_service_infos()]
        close_task = loop.create_task(aiozc.async_close())
        n = 0
        loop.run_ready()
        while not close_task.done():
            ctx.check(loop.step(), 'async_close is stuck: no timer pending')
            n += 1
            if n > 60:
                ctx.check(False, 'async_close did not return within 60 timer steps')
                return
        returned_at = loop.now_ms
        if shape.get('stall_max'):
            # the application blocks the loop right after close returned: everything that was still scheduled runs late, in one go
            loop.now_ms = loop.now_ms + ctx.int('loop_stall_ms', 0, shape['stall_max'])
        sends_at_return = len(env.sent_log(zc))
        cbs_at_return = len(cb_log)
        if ctx.twin:
            return
        ctx.check(close_task._exc is None, f'async_close raised {close_task._exc!r}')
        # ---- afterwards: further traffic, hours of virtual time, a second close
        loop.advance_by(50)
        resp = mk_incoming(loop.now_ms, [VOCAB['P2'].make(4500, loop.now_ms, False), VOCAB['S2'].make(120, loop.now_ms, True)])
        if 'raw-listener' not in doing and 'own-browser' not in doing:  # (a response injected past the closed socket would reach an application-owned listener)
            zc.record_manager.async_updates_from_response(resp)
        for qq in ([Q(T1, PTR)], [Q(N1, SRV, True)]):
            m = mk_query(loop.now_ms, qq, [], ('10.0.0.9', 5353), data=b'late' + str(qq).encode())
            proto.handle_query_or_defer(m, '10.0.0.9', 5353, proto.transport, ())
        m = mk_query(loop.now_ms, [Q(T1, PTR)], [], ('10.0.0.9', 40000), data=b'late-legacy')
        proto.handle_query_or_defer(m, '10.0.0.9', 40000, proto.transport, ())
        loop.advance_by(HOURS)
        again = loop.create_task(aiozc.async_close())
        loop.advance_by(5000)
        ctx.check(again.done() and again._exc is None, f'closing again is not a quiet no-op ({again._exc!r})')
        ctx.check(not loop.callback_exceptions, f'a timer / callback left behind raised: {loop.callback_exceptions[:1]!r}')
        for t in user_tasks:
            ctx.check(t.done(), 'a registration / lookup in progress at close never finished')
        ctx.check(len(env.sent_log(zc)) == sends_at_return, 'something was transmitted after async_close returned')
        ctx.check(len(cb_log) == cbs_at_return, 'a browser / listener callback fired after async_close returned')
        for wt in zc.engine.senders:
            ctx.check(wt.transport.closed, 'a socket is still open after close')
        ctx.check(zc.done and not zc.registry.async_get_service_infos(), 'instance not marked done / registry not empty after close')
        # ---- goodbyes for everything that was registered when close was requested
        sends = env.sent_log(zc)
        for name in in_registry_at_close:
            byes = [s for s in sends if any(getattr(r, 'alias', None) == name and r.ttl == 0 for r in s.records())]
            ctx.check(len(byes) >= 1, f'{name} was registered at close but no goodbye for it was sent before the sockets closed')
            if byes:
                last_bye = byes[-1].t
                for s in sends:
                    if s.t > last_bye:
                        for r in s.records():
                            if r.ttl != 0 and (getattr(r, 'alias', None) == name or r.name == name):
                                ctx.check(False, f'{name}: record {r.type} transmitted with a non-zero TTL after its last goodbye')

    return fn


def sh(*doing: str, **kw: Any) -> Dict[str, Any]:
    return dict({'in_progress': list(doing)}, **kw)


QUICK = {
    'idle': sh(),
    'registered': sh('registered'),
    'registering': sh('registering', close_max=800),
    'registered-and-registering': sh('registered', 'registering', close_max=800),
    'queued-answers': sh('queued-answers', close_max=1300),
    'deferred-tc': sh('deferred-tc', close_max=600),
    'browser': sh('browser', close_max=2000),
    'lookup': sh('lookup', close_max=1500),
    'at-purge-tick': sh('registered', close_max=10500, close_first=True),
    'idle-at-purge-tick': sh('raw-listener', close_max=10500, close_first=True),
    'registering-then-stalled-loop': sh('registering', close_max=800, stall_max=500),
    'lookup-then-stalled-loop': sh('lookup', close_max=1500, stall_max=500),
    'engine-starting': sh('starting', close_max=1200),
    'engine-starting-registering': sh('starting', 'registering', close_max=1200),
    'own-browser-starting': sh('own-browser', close_max=2000),
    'own-browser-running': sh('own-browser', 'registered', close_max=16000),
}
THOROUGH = {
    'everything': sh('registered', 'registering', 'browser', 'lookup', close_max=800),
    'browser-late': sh('browser', close_max=16000),
    'queued-and-tc': sh('queued-answers', 'deferred-tc', close_max=800),
    'registering-long': sh('registering', close_max=1500),
}


def obligations(tier: str) -> List[Obligation]:
    shapes = dict(QUICK)
    if tier == 'thorough':
        shapes.update(THOROUGH)
    return [Obligation(f'close[{k}]', make(v), 'close', {'name': k, **v}, timeout=200 if tier == 'quick' else 900) for k, v in shapes.items()]


META = {
    'explanation': 'The real AsyncZeroconf.async_close coroutine runs on the fake loop of a socket-less instance (fake transports that raise if written after '
    'being closed) while a registration is probing / announcing, answers wait in the aggregation and protection queues, a truncated query is deferred, a browser '
    'runs its start-up queries or a lookup is pending; the instant of the close request is a z3 integer (0..close_max ms after the activity started) as are the '
    'jitter draws. After it returns: a response and three queries are delivered, three hours pass, close is called again. Checked: no transmission, no callback, '
    'no exception from a leftover timer, sockets closed, registry empty, goodbye sent for every service registered at the request and nothing positive after it.',
    'functions': [
        'zeroconf.asyncio.AsyncZeroconf.async_close/async_remove_all_service_listeners/async_unregister_all_services', 'AsyncServiceBrowser.async_cancel',
        'zeroconf._core.Zeroconf._async_close/_close/_shutdown_threads/async_unregister_all_services/generate_unregister_all_services/async_send/async_wait_for_start',
        'zeroconf._engine.AsyncEngine._async_close/_async_shutdown', '_ServiceBrowserBase._async_cancel', 'QueryScheduler.stop/_process_startup_queries/_process_ready_types',
        'MulticastOutgoingQueue.async_ready', 'AsyncListener._respond_query', 'ServiceInfo.async_request',
    ],
    'bounds': {'t0': [5000, 2**40], 'close offset ms': '0..close_max (600..2000; 16000 in one thorough shape)', 'virtual time after close': '3 h', 'jitter': 'full intervals'},
    'outside': ['callbacks of a browser the application created itself and never cancelled when records are injected past the closed socket (its transmissions, timers and exceptions after the close ARE checked: close[own-browser-*])', 'Zeroconf.close() from a non-loop thread (real threads, run_coroutine_threadsafe)', 'several instances sharing a loop', 'real sockets / transports'],
    'stubs': env.STUBS,
    'float_sites': [],
    'assumptions': ['CrossHair 0.0.110 / z3 5.1.0', 'asyncio.gather / wait_for / timeout / sleep run unmodified on the fake loop'],
}
