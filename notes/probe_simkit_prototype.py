"""Prototype: exact-millisecond fake event loop usable under CrossHair."""
import asyncio, heapq, itertools

class Sec:
    """Seconds value held as exact integer milliseconds (possibly symbolic)."""
    __slots__ = ('ms',)
    def __init__(self, ms): self.ms = ms
    @staticmethod
    def of(x):
        if isinstance(x, Sec): return x
        if isinstance(x, float):
            assert x * 1000 == int(x * 1000)
            return Sec(int(x * 1000))
        return Sec(x * 1000)
    def __add__(self, o): return Sec(self.ms + Sec.of(o).ms)
    __radd__ = __add__
    def __sub__(self, o): return Sec(self.ms - Sec.of(o).ms)
    def __rsub__(self, o): return Sec(Sec.of(o).ms - self.ms)
    def __le__(self, o): return self.ms <= Sec.of(o).ms
    def __lt__(self, o): return self.ms < Sec.of(o).ms
    def __ge__(self, o): return self.ms >= Sec.of(o).ms
    def __gt__(self, o): return self.ms > Sec.of(o).ms
    def __eq__(self, o): return self.ms == Sec.of(o).ms
    def __hash__(self): return 0
    def __float__(self): return float(self.ms) / 1000.0

def millis_to_seconds(ms): return Sec(ms)

class Handle:
    def __init__(self, when_ms, cb, args, seq):
        self.when_ms, self.cb, self.args, self.seq, self.cancelled_ = when_ms, cb, args, seq, False
    def cancel(self): self.cancelled_ = True
    def cancelled(self): return self.cancelled_
    def when(self): return Sec(self.when_ms)

class Fut:
    def __init__(self, loop): self.loop=loop; self._done=False; self._res=None; self._cbs=[]
    def done(self): return self._done
    def cancelled(self): return False
    def set_result(self, r):
        assert not self._done
        self._done=True; self._res=r
        for cb in self._cbs: self.loop.ready.append((cb,(self,)))
    def result(self): return self._res
    def add_done_callback(self, cb): 
        if self._done: self.loop.ready.append((cb,(self,)))
        else: self._cbs.append(cb)
    def __await__(self):
        if not self._done:
            yield self
        return self._res
    __iter__ = __await__

class Task(Fut):
    def __init__(self, loop, coro):
        super().__init__(loop); self.coro=coro; self.exc=None
        loop.ready.append((self._step,()))
    def _step(self, *_):
        try:
            f = self.coro.send(None)
        except StopIteration as e:
            self.set_result(e.value)
        except Exception as e:   # record
            self.exc = e; self._done=True
            for cb in self._cbs: self.loop.ready.append((cb,(self,)))
        else:
            if f is None: self.loop.ready.append((self._step,()))
            else: f.add_done_callback(self._step)
    def cancel(self): 
        self.coro.close(); self._done=True

class FakeLoop:
    def __init__(self, now_ms):
        self.now_ms = now_ms; self.timers=[]; self.ready=[]; self.seq=itertools.count()
    def time(self): return Sec(self.now_ms)
    def call_at(self, when, cb, *args):
        h = Handle(Sec.of(when).ms, cb, args, next(self.seq)); self.timers.append(h); return h
    def call_later(self, delay, cb, *args): return self.call_at(self.time()+delay, cb, *args)
    def call_soon(self, cb, *args): self.ready.append((cb,args))
    call_soon_threadsafe = call_soon
    def create_future(self): return Fut(self)
    def create_task(self, coro, **kw): return Task(self, coro)
    def is_running(self): return True
    def get_debug(self): return False
    def run_ready(self):
        n=0
        while self.ready:
            cb,args = self.ready.pop(0); cb(*args); n+=1
            assert n < 1000
    def next_timer(self):
        live=[h for h in self.timers if not h.cancelled_]
        if not live: return None
        best=live[0]
        for h in live[1:]:
            if h.when_ms < best.when_ms or (h.when_ms == best.when_ms and h.seq < best.seq): best=h
        return best
    def advance_to(self, t_ms):
        """Run all timers due up to t_ms (inclusive) in order, then set clock to t_ms."""
        self.run_ready()
        while True:
            h=self.next_timer()
            if h is None or h.when_ms > t_ms: break
            self.timers.remove(h)
            if h.when_ms > self.now_ms: self.now_ms = h.when_ms
            h.cb(*h.args); self.run_ready()
        if t_ms > self.now_ms: self.now_ms = t_ms
