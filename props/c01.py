"""C01 - wire codec round trip.

Engine E1.  (1) Field round trip: real DNSOutgoing.packets() with value-carrying packer stand-ins, the
resulting element list read by the real DNSIncoming (through vkit.pkt.SymPacket) and by the independent
reader; TTLs, class words, flush bits, message id and SRV numbers are solver variables, names come from a
vocabulary (shared suffixes, mixed case, non-ASCII).  (2) Kernel lemmas on the real _write_utf /
_decode_labels_at_offset (label of symbolic octet length), _write_link_to_name (pointer to a symbolic
offset), write_character_string / _read_character_string, DNSNsec.write / _read_bitmap.
Packet splitting and rollback are decided under C14.
"""
from __future__ import annotations

from typing import Any, Dict, List, Tuple

import zeroconf._dns as dns
from vkit import env, wire
from vkit.build import IN, UNIQUE
from vkit.pkt import Blob, OpaqueText, Reader, SymPacket, name_labels, run_packets
from vkit.runner import Obligation
from zeroconf import const
from zeroconf._dns import DNSAddress, DNSHinfo, DNSNsec, DNSPointer, DNSQuestion, DNSService, DNSText
from zeroconf._exceptions import IncomingDecodeError, NamePartTooLongException
from zeroconf._protocol.incoming import DNSIncoming
from zeroconf._protocol.outgoing import DNSOutgoing

PROPERTY = 'C01'
V6 = b'\xfe\x80' + b'\x00' * 13 + b'\x01'


def records(ctx: Any, names: Dict[str, str], flush_sym: Tuple[int, ...] = (0, 5)) -> List[Any]:
    """One record of each kind; scalar fields symbolic."""
    def ttl(k: str) -> Any:
        return ctx.int(f'ttl_{k}', 0, 2**32 - 1)

    rs = [
        DNSAddress(names['host'], const._TYPE_A, IN, ttl('a'), b'\x0a\x00\x00\x01', None, 1000),
        DNSAddress(names['host'], const._TYPE_AAAA, IN, ttl('aaaa'), V6, None, 1000),
        DNSPointer(names['type'], const._TYPE_PTR, IN, ttl('ptr'), names['inst'], 1000),
        DNSPointer(names['alias'], const._TYPE_CNAME, IN, ttl('cname'), names['host'], 1000),
        DNSText(names['inst'], const._TYPE_TXT, IN, ttl('txt'), b'\x03a=1\x00\x05b=\xff\xfe\x00', 1000),
        DNSService(names['inst'], const._TYPE_SRV, IN, ttl('srv'), ctx.int('priority', 0, 65535), ctx.int('weight', 0, 65535), ctx.int('port', 0, 65535), names['host'], 1000),
        DNSHinfo(names['host'], const._TYPE_HINFO, IN, ttl('hinfo'), 'cpu é', '', 1000),
        DNSNsec(names['host'], const._TYPE_NSEC, IN, ttl('nsec'), names['host'], [1, 28, 47, 255], 1000),
    ]
    for i, r in enumerate(rs):
        r.class_ = ctx.int(f'class_{i}', 0, 32767)
        # the flush bit forks the encoder: symbolic on two records per obligation, fixed on the others
        r.unique = (ctx.int(f'flush_{i}', 0, 1) == 1) if i in flush_sym else (i % 2 == 1)
    return rs


NAMESETS = {
    'plain': {'type': '_http._tcp.local.', 'inst': 'Alpha._http._tcp.local.', 'host': 'alpha.local.', 'alias': 'www.alpha.local.'},
    'mixed-case': {'type': '_HTTP._tcp.Local.', 'inst': 'ALPHA Beta._http._tcp.local.', 'host': 'Alpha.LOCAL.', 'alias': 'alpha.local.'},
    'non-ascii': {'type': '_http._tcp.local.', 'inst': 'Café ☃._http._tcp.local.', 'host': 'café.local.', 'alias': 'x.café.local.'},
    'dotted-instance': {'type': '_http._tcp.local.', 'inst': 'My.Dotted.Instance._http._tcp.local.', 'host': 'a.b.c.d.e.local.', 'alias': 'b.c.d.e.local.'},
    'long-labels': {'type': '_http._tcp.local.', 'inst': 'x' * 63 + '._http._tcp.local.', 'host': 'y' * 63 + '.' + 'z' * 63 + '.local.', 'alias': 'z' * 63 + '.local.'},
}
# names of exactly 253 characters (the longest the decoder must accept) and owner / target sharing suffixes
_LONG = 'y' * 63 + '.' + 'z' * 63 + '.' + 'w' * 63 + '.' + 'v' * 54 + '.local.'
assert len(_LONG) == 253
NAMESETS['max-length'] = {'type': '_http._tcp.local.', 'inst': 'Alpha._http._tcp.local.', 'host': _LONG, 'alias': 'u' * 55 + _LONG[-198:]}
assert len(NAMESETS['max-length']['alias']) == 253


def same_record(ctx: Any, got: Any, want: Any, multicast: bool, where: str) -> None:
    ctx.check(type(got) is type(want), f'{where}: decoded as {type(got).__name__}, given {type(want).__name__}')
    if type(got) is not type(want):
        return
    ctx.check(got.name == want.name, f'{where}: owner name {got.name!r} != {want.name!r}')
    ctx.check(got.type == want.type, f'{where}: type differs')
    ctx.check(got.class_ == want.class_, f'{where}: class differs')
    ctx.check(got.unique == (want.unique if multicast else False), f'{where}: cache-flush bit differs')
    ctx.check(got.ttl == want.ttl, f'{where}: TTL differs')
    if isinstance(want, DNSAddress):
        ctx.check(got.address == want.address, f'{where}: address differs')
    elif isinstance(want, DNSPointer):
        ctx.check(got.alias == want.alias, f'{where}: pointer target {got.alias!r} != {want.alias!r}')
    elif isinstance(want, DNSText):
        ctx.check(got.text == want.text, f'{where}: text differs')
    elif isinstance(want, DNSService):
        ctx.check(got.priority == want.priority and got.weight == want.weight and got.port == want.port, f'{where}: SRV numbers differ')
        ctx.check(got.server == want.server, f'{where}: SRV target differs')
    elif isinstance(want, DNSHinfo):
        ctx.check(got.cpu == want.cpu and got.os == want.os, f'{where}: HINFO strings differ')
    elif isinstance(want, DNSNsec):
        ctx.check(got.next_name == want.next_name and got.rdtypes == want.rdtypes, f'{where}: NSEC differs')


def make_roundtrip(shape: Dict[str, Any]) -> Any:
    names = NAMESETS[shape['names']]
    query, multicast = shape.get('query', False), shape.get('multicast', True)
    order = shape.get('order', 'fwd')

    def fn(ctx: Any) -> None:
        env.begin(ctx, 1000)
        env.use_token_packets(False)
        wire.install()
        dns.hash = lambda t: 0  # type: ignore[attr-defined]  (records with symbolic class words are never put in a dict here)
        try:
            flags = const._FLAGS_QR_QUERY if query else (const._FLAGS_QR_RESPONSE | const._FLAGS_AA)
            mid = ctx.int('id', 0, 65535)
            out = DNSOutgoing(flags, multicast, mid)
            rs = records(ctx, names, tuple(shape.get('flush_sym', (0, 5))))
            if order == 'rev':
                rs = rs[::-1]
            qs = [DNSQuestion(names['type'], const._TYPE_PTR, IN), DNSQuestion(names['inst'], const._TYPE_ANY, IN)]
            qs[1].unique = bool(shape.get('qu', True))
            for q in qs:
                out.add_question(q)
            for r in rs[:4]:
                out.add_answer_at_time(r, 0)
            if query:
                out.add_authorative_answer(rs[2])
            for r in rs[4:]:
                out.add_additional_answer(r)
            given = rs[:4] + ([rs[2]] if query else []) + rs[4:]
            snaps = run_packets(out)
            if ctx.twin:
                return
            if not ctx.check(len(snaps) == 1, 'a small message was split'):
                return
            pkt = SymPacket(snaps[0].data)
            # decoded as on an IPv6 socket with a scope id, at receive time 4242 (the clock says 1000)
            msg = DNSIncoming(pkt, ('fe80::9', 5353), 3, 4242)  # type: ignore[arg-type]
            ctx.check(msg.valid, 'the library decoder rejects its own encoding')
            ctx.check(msg.id == (0 if multicast else mid), 'message id not recovered (0 for multicast)')
            ctx.check(msg.flags == flags, 'flags not recovered')
            ctx.check(len(msg.questions) == len(qs), 'question count differs')
            for got, want in zip(msg.questions, qs):
                ctx.check(got.name == want.name and got.type == want.type and got.class_ == want.class_, 'question not recovered')
                ctx.check(got.unique == (want.unique if multicast else False), 'QU bit not recovered')
            got_recs = msg.answers()
            ctx.check(len(got_recs) == len(given), f'{len(got_recs)} records decoded, {len(given)} given')
            for k, (g, w) in enumerate(zip(got_recs, given)):
                same_record(ctx, g, w, multicast, f'record {k}')
                ctx.check(g.created == 4242, f'record {k}: not stamped with the receive time of its datagram')
                if isinstance(w, DNSAddress):
                    # only an IPv6 address record carries the scope of the receiving interface; an IPv4 one stays the same record
                    ctx.check(g.scope_id == (3 if w.type == const._TYPE_AAAA else None), f'record {k}: scope id of a decoded address record')
            # independent reader over the same element list
            rd = Reader(snaps[0], ctx)
            hid, hflags, nq, nan, nns, nar = rd.header()
            ctx.check([nq, nan, nns, nar] == [len(qs), 4, 1 if query else 0, len(rs) - 4], 'section counts (independent reader)')
            ents = rd.entries(nq, nan + nns + nar)
            ctx.check(len(ents) == nq + len(given) and not any(e.get('malformed') for e in ents), 'independent reader cannot walk the datagram')
            if len(ents) == nq + len(given) and not any(e.get('malformed') for e in ents):
                for e, w in zip(ents[nq:], given):
                    ctx.check(e['name'] == name_labels(w.name), f'independent reader: owner name of {w.name!r}')
                    ctx.check(e['type'] == w.type and e['ttl'] == w.ttl, 'independent reader: type / TTL')
                    want_class = w.class_ + 32768 if (w.unique and multicast) else w.class_
                    ctx.check(e['class'] == want_class, 'independent reader: class word')
        finally:
            dns.hash = env._native_hash  # type: ignore[attr-defined]
            wire.uninstall()

    return fn


class SymLabelStr(str):
    """A label whose UTF-8 encoding is an opaque blob of symbolic length."""

    n: Any = 0

    def __new__(cls, n: Any) -> 'SymLabelStr':
        o = str.__new__(cls, '<label>')
        o.n = n
        return o

    def encode(self, *a: Any) -> Blob:  # type: ignore[override]
        return Blob(self.n)


def make_label_length(shape: Dict[str, Any]) -> Any:
    def fn(ctx: Any) -> None:
        env.begin(ctx, 1000)
        wire.install()
        try:
            n = ctx.int('label_octets', 1, 300)
            out = DNSOutgoing(const._FLAGS_QR_RESPONSE)
            try:
                out._write_utf(SymLabelStr(n))
                accepted = True
            except NamePartTooLongException:
                accepted = False
            if ctx.twin:
                return
            if not accepted:
                ctx.check(n > 63, 'a label of at most 63 octets was rejected by the encoder')
                return
            out._write_byte(0)
            ctx.check(out.size == 12 + 1 + n + 1, 'label not accounted as 1 + n octets')
            pkt = SymPacket(out.data)
            msg = DNSIncoming.__new__(DNSIncoming)
            msg.data = msg.view = pkt  # type: ignore[assignment]
            msg._data_len = len(pkt)
            msg._name_cache = {}
            msg.source = None
            labels: List[Any] = []
            try:
                end = msg._decode_labels_at_offset(0, labels, set())
            except IncomingDecodeError:
                ctx.check(False, 'the encoder accepts this label length but every decoder rejects the length octet (labels are limited to 63 octets)')
                return
            ctx.check(len(labels) == 1 and isinstance(labels[0], OpaqueText) and labels[0].octets == n, 'decoder did not recover one label of n octets')
            ctx.check(end == n + 2, 'decoder did not stop after the terminator')
        finally:
            wire.uninstall()

    return fn


class ListSet:
    """set stand-in that compares instead of hashing (a symbolic offset would be realised by hash())."""

    def __init__(self) -> None:
        self.items: List[Any] = []

    def add(self, x: Any) -> None:
        if x not in self:
            self.items.append(x)

    def __contains__(self, x: Any) -> bool:
        for y in self.items:
            if y == x:
                return True
        return False

    def __len__(self) -> int:
        return len(self.items)

    def __iter__(self) -> Any:
        return iter(self.items)

    def discard(self, x: Any) -> None:
        self.items = [y for y in self.items if not (y == x)]

    remove = discard

    def update(self, xs: Any) -> None:
        for x in xs:
            self.add(x)


class ListDict:
    def __init__(self) -> None:
        self.items: List[Tuple[Any, Any]] = []

    def get(self, k: Any, default: Any = None) -> Any:
        for kk, v in self.items:
            if kk == k:
                return v
        return default

    def __setitem__(self, k: Any, v: Any) -> None:
        self.items = [(kk, vv) for kk, vv in self.items if not (kk == k)] + [(k, v)]


def make_pointer(shape: Dict[str, Any]) -> Any:
    def fn(ctx: Any) -> None:
        env.begin(ctx, 1000)
        wire.install()
        try:
            target = ctx.int('target_offset', 12, 8950)
            out = DNSOutgoing(const._FLAGS_QR_RESPONSE)
            out.data = [Blob(target)]
            out.size = target
            out._write_utf('a')
            out._write_utf('local')
            out._write_byte(0)
            here = out.size
            out._write_utf('b')
            out._write_link_to_name(target)
            if ctx.twin:
                return
            ctx.check(out.size == here + 2 + 2, 'pointer not accounted as two octets')
            hi, lo = out.data[-2].value, out.data[-1].value
            ctx.check(0xC0 <= hi and hi <= 0xFF and 0 <= lo and lo <= 0xFF, 'pointer octets out of range / top bits not set')
            pkt = SymPacket(out.data)
            msg = DNSIncoming.__new__(DNSIncoming)
            msg.data = msg.view = pkt  # type: ignore[assignment]
            msg._data_len = len(pkt)
            msg._name_cache = {}
            msg.source = None
            labels: List[str] = []
            msg._name_cache = ListDict()  # type: ignore[assignment]
            end = msg._decode_labels_at_offset(here, labels, ListSet())  # type: ignore[arg-type]
            ctx.check(labels == ['b', 'a', 'local'], 'name through a compression pointer not recovered')
            ctx.check(end == here + 4, 'decoder did not continue after the two pointer octets')
        finally:
            wire.uninstall()

    return fn


def make_charstring(shape: Dict[str, Any]) -> Any:
    def fn(ctx: Any) -> None:
        env.begin(ctx, 1000)
        wire.install()
        try:
            n = ctx.int('string_octets', 0, 255)
            out = DNSOutgoing(const._FLAGS_QR_RESPONSE)
            out.data = []
            out.size = 0
            out.write_character_string(Blob(n))  # type: ignore[arg-type]
            out.write_character_string(b'os')
            if ctx.twin:
                return
            ctx.check(out.size == 1 + n + 1 + 2, 'character-string not accounted as 1 + n octets')
            pkt = SymPacket(out.data)
            msg = DNSIncoming.__new__(DNSIncoming)
            msg.data = msg.view = pkt  # type: ignore[assignment]
            msg._data_len = len(pkt)
            msg.offset = 0
            a = msg._read_character_string()
            b = msg._read_character_string()
            if n == 0:
                ctx.check(a == '', 'empty character-string not recovered')
            else:
                ctx.check(isinstance(a, OpaqueText) and a.octets == n, 'character-string of n octets not recovered')
            ctx.check(b == 'os' and msg.offset == out.size, 'second character-string / offset not recovered')
        finally:
            wire.uninstall()

    return fn


def make_nsec(shape: Dict[str, Any]) -> Any:
    def fn(ctx: Any) -> None:
        env.begin(ctx, 1000)
        env.use_token_packets(False)
        wire.install()
        try:
            t1 = ctx.int('rdtype1', 0, 255)  # realised value by value (bytearray arithmetic): 256 x 1 paths, exhaustive
            rec = DNSNsec('h.local.', const._TYPE_NSEC, IN, 120, 'h.local.', [t1, 28], 1000)
            out = DNSOutgoing(const._FLAGS_QR_RESPONSE | const._FLAGS_AA)
            out.add_answer_at_time(rec, 0)
            snaps = run_packets(out)
            if ctx.twin:
                return
            msg = DNSIncoming(SymPacket(snaps[0].data), None, None, 1000)  # type: ignore[arg-type]
            got = msg.answers()
            ctx.check(msg.valid and len(got) == 1 and isinstance(got[0], DNSNsec), 'NSEC record not recovered')
            if len(got) == 1 and isinstance(got[0], DNSNsec):
                ctx.check(got[0].rdtypes == sorted(set([t1, 28])) or got[0].rdtypes == sorted([t1, 28]), 'NSEC type bitmap not recovered')
                ctx.check(got[0].next_name == 'h.local.', 'NSEC next name not recovered')
        finally:
            wire.uninstall()

    return fn


def _packer_lemmas() -> List[Obligation]:
    """E2: the real integer packers of DNSOutgoing (pre-packed lookup tables + struct), translated from their source on every run.
    The E1 obligations replace them by value-carrying tokens, so their tables and cut-over points are decided here."""
    import struct

    import z3

    from vkit import pyz3
    from zeroconf._protocol import outgoing as og

    def lemma(build: Any) -> Any:
        def run() -> Dict[str, Any]:
            try:
                goal, base = build()
            except pyz3.Unsupported as e:
                return {'verdict': 'inconclusive', 'queries': 0, 'solver_s': 0, 'detail': f'outside the translated subset: {e}'}
            r, model, dt = pyz3.solve(base + [z3.Not(goal)], 60000)
            if r == 'unsat':
                return {'verdict': 'discharged', 'queries': 1, 'solver_s': round(dt, 3)}
            if r == 'sat':
                return {'verdict': 'counterexample', 'witness': {str(d): model[d].as_long() for d in model.decls() if str(d) == 'value'}, 'queries': 1, 'solver_s': round(dt, 3)}
            return {'verdict': 'inconclusive', 'queries': 1, 'solver_s': round(dt, 3)}

        return run

    value = z3.Int('value')

    def b_short() -> Any:
        paths = pyz3.Evaluator(og.DNSOutgoing._get_short, {}).run({'value': value})
        goal = z3.And(*[z3.Implies(cond, out[1] == value) for cond, out in paths if out[0] == 'return'] + [z3.Not(cond) for cond, out in paths if out[0] != 'return'])
        return goal, [value >= 0, value <= 65535]

    def b_byte() -> Any:
        import ast
        import inspect
        import textwrap

        ev = pyz3.Evaluator(og.DNSOutgoing._write_byte, {})
        sub = [n for n in ast.walk(ev.tree) if isinstance(n, ast.Subscript)]
        if len(sub) != 1:
            raise pyz3.Unsupported('_write_byte no longer appends one table entry')
        return ev.ev(sub[0], {'value': value}) == value, [value >= 0, value <= 255]

    def replay(w: Dict[str, Any]) -> List[str]:
        v = w.get('value', 0)
        out = []
        o = og.DNSOutgoing(0)
        try:
            if 0 <= v <= 65535 and o._get_short(v) != struct.pack('>H', v):
                out.append(f'_get_short({v}) is not the big-endian 16-bit encoding')
        except Exception as e:  # noqa: BLE001
            out.append(f'_get_short({v}) raised {type(e).__name__}')
        try:
            if 0 <= v <= 255:
                o._write_byte(v)
                if o.data[-1] != bytes([v]):
                    out.append(f'_write_byte({v}) appended {o.data[-1]!r}')
        except Exception as e:  # noqa: BLE001
            out.append(f'_write_byte({v}) raised {type(e).__name__}')
        for k, packed in og.LONG_LOOKUP.items():
            if packed != struct.pack('>L', k):
                out.append(f'LONG_LOOKUP[{k}] is not the big-endian 32-bit encoding')
        return out

    def b_long() -> Any:
        bad = [k for k, packed in og.LONG_LOOKUP.items() if packed != struct.pack('>L', k)]
        return z3.BoolVal(not bad), []

    return [Obligation('packer[_get_short is the 16-bit big-endian encoding for every value 0..65535]', lemma(b_short), 'packer', {}, kind='smt', timeout=70, replay=replay),
            Obligation('packer[_write_byte appends the octet for every value 0..255]', lemma(b_byte), 'packer', {}, kind='smt', timeout=70, replay=replay),
            Obligation('packer[LONG_LOOKUP entries are their 32-bit encodings]', lemma(b_long), 'packer', {}, kind='smt', timeout=70, replay=replay)]


def obligations(tier: str) -> List[Obligation]:
    obs = _packer_lemmas()
    combos = [('max-length', False, True, 'fwd'), ('plain', False, True, 'fwd'), ('mixed-case', False, True, 'rev'), ('non-ascii', True, True, 'fwd'), ('dotted-instance', False, False, 'fwd'), ('long-labels', True, False, 'rev')]
    if tier == 'thorough':
        combos = [(n, q, m, o) for n in NAMESETS for q in (False, True) for m in (True, False) for o in ('fwd', 'rev')]
    for n, q, m, o in combos:
        k = len(obs)
        shape = {'names': n, 'query': q, 'multicast': m, 'order': o, 'flush_sym': [k % 8, (k * 3 + 2) % 8], 'qu': k % 2 == 0}
        obs.append(Obligation(f'roundtrip[{n};{"query" if q else "response"};{"multicast" if m else "unicast"};{o}]', make_roundtrip(shape), 'roundtrip', shape, timeout=300 if tier == 'quick' else 900))
    # the clause "however name compression and packet splitting fall": two C14 shapes (symbolic rdata lengths, rollback at the
    # limit, names shared across the split) re-read by the independent reader
    from . import c14

    for k in ('hinfo-then-names', 'txt-then-shared-name', 'ptr-txt-srv'):
        obs.append(Obligation(f'split-and-compress[{k}]', c14.make(c14.QUICK[k]), 'split', {'name': k, **c14.QUICK[k]}, timeout=200))
    obs.append(Obligation('label-length', make_label_length({}), 'label-length', {}, timeout=120))
    obs.append(Obligation('pointer', make_pointer({}), 'pointer', {}, timeout=120))
    obs.append(Obligation('character-string', make_charstring({}), 'character-string', {}, timeout=120))
    obs.append(Obligation('nsec-bitmap', make_nsec({}), 'nsec-bitmap', {}, timeout=300))
    return obs


META = {
    'explanation': 'roundtrip[*]: a message with two questions and one record of each kind (A, AAAA, PTR, CNAME, TXT, SRV, HINFO, NSEC) over a name vocabulary (shared suffixes, '
    'mixed case, non-ASCII, dotted instance, 63-octet labels) is built by the real DNSOutgoing.packets() with value-carrying packer stand-ins; every TTL (0..2^32-1), class word, '
    'flush / QU bit, the message id and the SRV numbers are z3 integers. The element list is decoded by the real DNSIncoming (header, questions, every _read_record branch, name '
    'decompression) and by an independent reader; all fields must come back, per section, in order. Lemmas on the real kernels: a label of symbolic octet length 1..300 is either '
    'rejected by _write_utf or recovered by _decode_labels_at_offset; a compression pointer to any offset 12..8950 is two octets with the top bits set and is followed back; '
    'character-strings of 0..255 octets; the NSEC bitmap for every type 0..255.',
    'functions': [
        'zeroconf._protocol.outgoing.DNSOutgoing.packets/_write_question/_write_record/write_name/_write_utf/_write_link_to_name/_write_record_class/_write_ttl/write_character_string',
        'record write() methods of all seven kinds', 'zeroconf._protocol.incoming.DNSIncoming.__init__/_initial_parse/_read_header/_read_questions/_read_others/_read_record/'
        '_read_name/_decode_labels_at_offset/_read_character_string/_read_string/_read_bitmap/answers', 'DNSEntry._set_class',
    ],
    'bounds': {'ttl': [0, 2**32 - 1], 'class': [0, 32767], 'id / srv numbers': [0, 65535], 'label octets (lemma)': [1, 300], 'pointer target (lemma)': [12, 8950], 'character-string octets': [0, 255], 'nsec type': [0, 255]},
    'outside': ['label contents and suffix-sharing patterns beyond the five name sets', 'sections of hundreds of entries / splitting (C14 decides splitting and rollback with symbolic sizes)',
                'remaining-TTL answers (C13 remaining-ttl)', 'character-strings of 256 octets and more (outside the quantifier)'],
    'stubs': ['DNSOutgoing._get_short/_write_int/_write_byte replaced by width-preserving value tokens (vkit.wire); BYTE_TABLE / SHORT_LOOKUP / LONG_LOOKUP are therefore not exercised',
              'the datagram handed to DNSIncoming is vkit.pkt.SymPacket (len / index / slice over the element list, token octets as arithmetic terms)',
              'roundtrip: `hash` in zeroconf._dns returns 0 (records with symbolic class words are compared, never hashed)'],
    'float_sites': [],
    'assumptions': ['CrossHair 0.0.110 / z3 5.1.0', 'bit-operation handlers of vkit.chpatch (a & mask, a | c, hi << 8 | lo)'],
}
