#!/usr/bin/env python3
"""Rewrites the seeded-changes table in DESIGN.md from seeded/*/meta.json."""
import glob, json, os, re

VERIF = os.path.dirname(os.path.dirname(os.path.abspath(__file__)))
rows = ['| seed | what it changes (from the sub-agent\'s notes) | caught by (quick tier) |', '|---|---|---|']
for f in sorted(glob.glob(os.path.join(VERIF, 'seeded', '*', 'meta.json'))):
    m = json.load(open(f))
    notes = open(os.path.join(os.path.dirname(f), 'notes.md')).read() if os.path.exists(os.path.join(os.path.dirname(f), 'notes.md')) else ''
    title = next((l.strip('# ').strip() for l in notes.splitlines() if l.strip()), '')[:110].replace('|', '/')
    caught = []
    for c, r in m['checks'].items():
        if r['exit'] == 1 and r['violations']:
            caught.append(f"{c}: " + ', '.join(v.replace('_', ' ')[:48] for v in r['violations'][:2]))
    rows.append(f"| {m['seed']} | {title} | {'; '.join(caught) if caught else '**missed**'} |")
p = os.path.join(VERIF, 'DESIGN.md')
s = open(p).read()
s = re.sub(r'<!-- SEED-TABLE-BEGIN -->.*<!-- SEED-TABLE-END -->', '<!-- SEED-TABLE-BEGIN -->\n' + '\n'.join(rows) + '\n<!-- SEED-TABLE-END -->', s, flags=re.S)
open(p, 'w').write(s)
print(len(rows) - 2, 'rows')
