"""C11 - routing and format of replies (RFC 6762 sections 5.4, 6, 6.7).

Engine E1 on the real listener -> QueryHandler.handle_assembled_query -> async_send path with a
recording transport.  Source port (0..65535), query id (0..65535), and for every previously sighted
record its age and cached TTL are solver variables.  Header id / flags / class words of the emitted
packets are read back from the real packets() run with value-carrying packer stand-ins (vkit.wire).
"""
from __future__ import annotations

from typing import Any, Dict, List, Tuple

from vkit import env, wire
from vkit.build import IN
from vkit.responder import V4A, V4B, V6B, Q, Svc, mk_query, reference_answers
from vkit.runner import Obligation
from zeroconf import const
from zeroconf._dns import DNSQuestion
from zeroconf._handlers.answers import construct_outgoing_multicast_answers, construct_outgoing_unicast_answers

PROPERTY = 'C11'
T1, T2 = '_http._tcp.local.', '_ipp._tcp.local.'
PTR, A, AAAA, SRV, TXT, NSEC = const._TYPE_PTR, const._TYPE_A, const._TYPE_AAAA, const._TYPE_SRV, const._TYPE_TXT, const._TYPE_NSEC
N1 = 'Alpha._http._tcp.local.'
IMMEDIATE_TYPES = (SRV, A, AAAA, NSEC)
QR_AA = const._FLAGS_QR_RESPONSE | const._FLAGS_AA


def make(shape: Dict[str, Any]) -> Any:
    questions: List[Tuple[str, int, bool]] = shape['q']
    probe = shape.get('probe', False)
    sighted: List[str] = shape.get('sighted', [])
    n_tr = shape.get('transports', 1)
    fixed_port = shape.get('port')

    def fn(ctx: Any) -> None:
        t0 = ctx.int('t0', 2**43, 2**44)
        loop = env.begin(ctx, t0)
        env.use_token_packets(True)
        families = shape.get('families')
        zc = env.make_zc(loop, n_transports=n_tr, families=families)
        cat = {
            'S1': Svc('S1', T1, N1, 'alpha.local.', 80, [V4A], []),
            'S2': Svc('S2', T1, 'Beta._http._tcp.local.', 'beta.local.', 8080, [V4B], []),
            'S3': Svc('S3', T1, 'Gamma._http._tcp.local.', 'alpha.local.', 8081, [V4B], []),  # second address of alpha.local.
        }
        svcs = [cat[k] for k in shape.get('services', ['S1'])]
        for sv in svcs:
            zc.registry.async_add(sv.info())
        s1 = cat['S1']
        proto = zc.engine.protocols[n_tr - 1]  # the receiving socket
        sight: Dict[Tuple, Tuple[Any, Any]] = {}
        for item in sighted:
            skey, kind = item.split('.') if '.' in item else ('S1', item)
            sv = cat[skey]
            recs = {'PTR': sv.ptr(), 'SRV': sv.srv(), 'TXT': sv.txt(), 'A': sv.addrs(A)[0], 'NSEC': sv.nsec()[0]}
            spec, _ttl, uniq = recs[kind]
            age = ctx.int(f'age_{skey}_{kind}', 0, 2**42)
            cttl = ctx.int(f'cached_ttl_{skey}_{kind}', 1, 2**31 - 1)
            zc.cache.async_add_records([spec.make(cttl, t0 - age, uniq)])
            sight[spec.ident] = (t0 - age, cttl)
        port = ctx.int('port', 0, 65535) if fixed_port is None else fixed_port
        qid = ctx.int('id', 0, 65535)
        qs = [Q(n, t, qu) for n, t, qu in questions]
        src = '10.0.0.9'
        if families:
            # dual-stack instance: the datagram goes through the real datagram_received (address unpacking, v6 flow / scope)
            import zeroconf._listener as lst

            recv_v6 = families[n_tr - 1] == 'v6'
            src = shape.get('v6_src', 'fe80::9') if recv_v6 else '10.0.0.9'
            addrs: Any = (src, port, ctx.int('flow', 0, 2**20 - 1), ctx.int('scope', 0, 2**32 - 1)) if recv_v6 else (src, port)
            msg = mk_query(t0, qs, [], (src, port), id_=qid, probe_authorities=1 if probe else 0, data=b'q')
            saved_inc = lst.DNSIncoming
            lst.DNSIncoming = lambda data, source=None, scope_id=None, now=None: msg  # type: ignore[misc,assignment]
            try:
                proto.datagram_received(b'q', addrs)
                if shape.get('second_querier'):
                    # another host sends the byte-identical query at the same instant (well inside the duplicate-suppression interval): it is owed its own unicast reply
                    src2 = 'fe80::8' if recv_v6 else '10.0.0.8'
                    addrs2: Any = (src2, port) + tuple(addrs[2:])
                    msg = mk_query(loop.now_ms, qs, [], (src2, port), id_=qid, probe_authorities=1 if probe else 0, data=b'q')
                    proto.datagram_received(b'q', addrs2)
            finally:
                lst.DNSIncoming = saved_inc  # type: ignore[misc]
        else:
            msg = mk_query(t0, qs, [], ('10.0.0.9', port), id_=qid, probe_authorities=1 if probe else 0, data=b'q')
            proto.handle_query_or_defer(msg, '10.0.0.9', port, proto.transport, ())
        immediate = list(env.sent_log(zc))
        loop.advance_by(3000)
        if ctx.twin:
            return
        everything = list(env.sent_log(zc))
        later = [s for s in everything if s.t > t0]
        ctx.check(len(everything) == len(immediate) + len(later), 'a transmission is dated before the query arrived')
        ctx.check(not loop.callback_exceptions, f'exception in a timer callback: {loop.callback_exceptions[:1]}')

        # ---- expected classification, from the statement
        ucast_source = port != 5353
        exp_ucast: Dict[Tuple, Any] = {}
        exp_now: Dict[Tuple, Any] = {}
        exp_later: Dict[Tuple, Any] = {}
        for qq in qs:
            for spec, _ttl, _u, _adds in reference_answers(svcs, qq, []):
                seen = sight.get(spec.ident)
                recent = seen is not None and seen[0] + 250 * seen[1] > t0
                last_second = seen is not None and t0 - seen[0] < 1000
                if not ucast_source and qq.qu:
                    if probe:
                        exp_ucast[spec.ident] = spec
                        if not recent:
                            exp_now[spec.ident] = spec
                    elif recent:
                        exp_ucast[spec.ident] = spec
                    else:
                        exp_now[spec.ident] = spec
                    continue
                if ucast_source:
                    exp_ucast[spec.ident] = spec
                if probe:
                    exp_now[spec.ident] = spec
                elif last_second:
                    exp_later[spec.ident] = spec
                elif len(qs) == 1 and qs[0].type in IMMEDIATE_TYPES:
                    exp_now[spec.ident] = spec
                else:
                    exp_later[spec.ident] = spec
        allexp = dict(exp_ucast)
        allexp.update(exp_now)
        allexp.update(exp_later)

        def ident(r: Any) -> Any:
            for i_, sp in allexp.items():
                if sp.make(0, 1) == r:
                    return i_
            return ('UNEXPECTED', r.name, r.type)

        def answers_of(sends: List[Any]) -> List[Any]:
            return sorted({ident(r) for s in sends for r, _ in s.out.answers})

        uni = [s for s in immediate if not s.out.multicast]
        multi_now = [s for s in immediate if s.out.multicast]
        # ---- unicast reply
        if exp_ucast and shape.get('second_querier'):
            if ctx.check(len(uni) == 2, f'{len(uni)} unicast transmissions for the same query from two hosts (each is owed a reply)'):
                ctx.check(uni[0].addr == src and uni[1].addr == src2, 'the two unicast replies did not go to the two queriers')
                ctx.check(answers_of([uni[0]]) == sorted(exp_ucast) and answers_of([uni[1]]) == sorted(exp_ucast), 'a querier did not get the unicast answers')
        elif exp_ucast:
            if ctx.check(len(uni) == 1, f'{len(uni)} unicast transmissions for one query (expected one, on the receiving socket only)'):
                u = uni[0]
                ctx.check(u.addr == src and u.port == (port if port != 0 else 5353), f'unicast reply sent to {u.addr}:{u.port}, not to the source')
                if families and families[n_tr - 1] == 'v6':
                    ctx.check(len(u.dest) == 4 and u.dest[2] == addrs[2] and u.dest[3] == addrs[3], 'unicast reply to an IPv6 source does not carry its flow / scope')
                elif families:
                    ctx.check(len(u.dest) == 2, 'unicast reply to an IPv4 source carries flow / scope fields')
                ctx.check(u.transport == proto.transport.transport.name, 'unicast reply left through another socket than the one the query arrived on')
                ctx.check(u.out.id == qid, 'unicast reply does not echo the query id')
                if ucast_source:
                    ctx.check(list(u.out.questions) == list(msg.questions), 'legacy unicast reply does not echo the questions')
                else:
                    ctx.check(not u.out.questions, 'QU reply to port 5353 carries a question section')
                ctx.check(u.out.flags == QR_AA, 'unicast reply flags are not response|authoritative')
                ctx.check(answers_of([u]) == sorted(exp_ucast), f'unicast reply answers {answers_of([u])} expected {sorted(exp_ucast)}')
        else:
            ctx.check(not uni, 'unicast transmission although nothing calls for it')
        # ---- multicast replies
        for s in multi_now + later:
            ctx.check(s.multicast, 'a reply built for multicast was sent to a unicast destination')
            if families:
                fam = families[[w.transport.name for w in zc.engine.senders].index(s.transport)]
                ctx.check(s.addr == ('ff02::fb' if fam == 'v6' else '224.0.0.251'), 'multicast group does not match the address family of the socket')
            ctx.check(s.out.id == 0 and s.out.flags == QR_AA and not s.out.questions, 'multicast reply: id / flags / question section wrong')
            for r in s.records():
                ctx.check(r.unique == (r.type != PTR), f'multicast reply: cache-flush marking wrong on {r.name}/{r.type}')
        for s in later:
            ctx.check(s.out.multicast, 'delayed transmission is not a multicast reply')
        ctx.check(answers_of(multi_now) == sorted(exp_now), f'multicast at once: {answers_of(multi_now)} expected {sorted(exp_now)}')
        ctx.check(answers_of(later) == sorted(exp_later), f'multicast later: {answers_of(later)} expected {sorted(exp_later)}')
        if exp_now and not shape.get('second_querier'):  # (two queriers may each cause an immediate multicast)
            per_tr = sorted(s.transport for s in multi_now)
            ctx.check(per_tr == sorted(w.transport.name for w in zc.engine.senders), 'immediate multicast not sent once on every socket')

    return fn


def make_directed(shape: Dict[str, Any]) -> Any:
    """A message sent to an explicit unicast address without naming a socket (directed lookups, the unicast wrapper): it must
    leave through the sockets of that address family only, to that address and port."""
    dest = shape['dest']

    def fn(ctx: Any) -> None:
        t0 = ctx.int('t0', 2**43, 2**44)
        loop = env.begin(ctx, t0)
        env.use_token_packets(True)
        zc = env.make_zc(loop, n_transports=3, families=['v4', 'v6', 'v4'])
        port = ctx.int('port', 1, 65535)
        out = construct_outgoing_multicast_answers({Svc('S1', T1, N1, 'alpha.local.', 80, [V4A], []).ptr()[0].make(4500, t0, False): set()})
        zc.async_send(out, dest, port)
        if ctx.twin:
            return
        sends = env.sent_log(zc)
        want = ['sock1'] if ':' in dest else ['sock0', 'sock2']
        ctx.check(sorted(s.transport for s in sends) == want, f'a message for {dest} left through {sorted(s.transport for s in sends)}, expected the sockets of its address family {want}')
        for s in sends:
            ctx.check(s.addr == dest and s.port == port, 'directed message not sent to the given address and port')

    return fn


def make_wire(shape: Dict[str, Any]) -> Any:
    """Header id, flags and class words of the real packets() for multicast / unicast replies."""
    multicast = shape['multicast']
    legacy = shape.get('legacy', False)

    def fn(ctx: Any) -> None:
        env.begin(ctx, 1000)
        env.use_token_packets(False)
        wire.install()
        try:
            s1 = Svc('S1', T1, N1, 'alpha.local.', 80, [V4A], [])
            qid = ctx.int('id', 0, 65535)
            recs = [s1.ptr(), s1.srv(), s1.txt(), s1.addrs(A)[0], s1.nsec()[0]]
            built = []
            for k, (spec, ttl, uniq) in enumerate(recs):
                cls = ctx.int(f'class{k}', 0, 32767)
                flush = ctx.int(f'flush{k}', 0, 1)
                r = spec.make(ttl, 1000, False)
                r.class_ = cls
                r.unique = flush == 1
                built.append((r, cls, flush))
            answers = {r: set() for r, _, _ in built}
            qs = [DNSQuestion(T1, PTR, IN)]
            out = construct_outgoing_multicast_answers(answers) if multicast else construct_outgoing_unicast_answers(answers, legacy, qs, qid)
            packets = out.packets()
            if ctx.twin:
                return
            ctx.check(len(packets) == 1, 'five small records did not fit one packet')
            data = out.data
            hdr = [d.value for d in data[:6]]
            ctx.check(hdr[0] == (0 if multicast else qid), f'header id is not {"0" if multicast else "the query id"}')
            ctx.check(hdr[1] == QR_AA, 'header flags are not response|authoritative (or TC set on a response)')
            ctx.check(hdr[2] == (1 if (legacy and not multicast) else 0), 'question count wrong')
            ctx.check(hdr[3] == 5 and hdr[4] == 0 and hdr[5] == 0, 'section counts wrong')
            # class words: the short following each record's type short
            seen_classes: Dict[int, Any] = {}
            by_type = {12: 0, 33: 1, 16: 2, 1: 3, 47: 4}
            for i, d in enumerate(data):
                if isinstance(d, wire.Tok) and d.width == 4:  # the TTL: preceded by type and class words
                    seen_classes[by_type[data[i - 2].value]] = data[i - 1].value
            # records are written sorted by name; identify each by its type
            ctx.check(len(seen_classes) == 5, 'could not locate the five class words')
            for r, cls, flush in built:
                w = seen_classes.get(by_type[r.type])
                if w is None:
                    continue
                want = cls + 32768 if (multicast and flush == 1) else cls
                ctx.check(w == want, f'class word of type {r.type}: cache-flush bit {"missing" if multicast else "present on a unicast reply"}')
        finally:
            wire.uninstall()

    return fn


def q(*qs: Tuple[str, int, bool], **kw: Any) -> Dict[str, Any]:
    d: Dict[str, Any] = {'q': list(qs)}
    d.update(kw)
    return d


QUICK = {
    'ptr-qm': q((T1, PTR, False)),
    'ptr-qu': q((T1, PTR, True)),
    'ptr-qu-sighted': q((T1, PTR, True), sighted=['PTR']),
    'srv-qu-sighted': q((N1, SRV, True), sighted=['SRV']),
    'srv-qm': q((N1, SRV, False)),
    'txt-qm-sighted': q((N1, TXT, False), sighted=['TXT']),
    'probe-qu': q((T1, PTR, True), probe=True),
    'probe-qu-sighted': q((T1, PTR, True), probe=True, sighted=['PTR']),
    'probe-qm': q((T1, PTR, False), probe=True),
    'mixed-qu-qm': q((T1, PTR, True), (N1, TXT, False), sighted=['PTR']),
    'two-sockets-qu': q((N1, SRV, True), sighted=['SRV'], transports=2),
    'two-sockets-legacy': q((T1, PTR, False), transports=2),
    'a-qu-sighted': q(('alpha.local.', A, True), sighted=['A']),
    'aaaa-nsec-qu': q(('alpha.local.', AAAA, True)),
    'unregistered': q(('Nobody._http._tcp.local.', SRV, True)),
    'two-ptrs-qu': q((T1, PTR, True), services=['S1', 'S2'], sighted=['S1.PTR', 'S2.PTR']),
    'two-addresses-qu': q(('alpha.local.', A, True), services=['S1', 'S3'], sighted=['S1.A', 'S3.A']),
    'dual-stack-v6-legacy': q((T1, PTR, False), transports=2, families=['v4', 'v6']),
    'dual-stack-v6-qu': q((N1, SRV, True), sighted=['SRV'], transports=2, families=['v4', 'v6']),
    'dual-stack-v4-qu': q((N1, SRV, True), sighted=['SRV'], transports=2, families=['v6', 'v4']),
    'dual-stack-v4-mapped-legacy': q((T1, PTR, False), transports=2, families=['v4', 'v6'], v6_src='::ffff:10.0.0.9'),
    'two-queriers-same-bytes': q((N1, SRV, True), ('Nobody._http._tcp.local.', SRV, False), sighted=['SRV'], transports=1, families=['v4'], second_querier=True, port=5353),
    'two-queriers-same-bytes-v6': q((N1, SRV, True), sighted=['SRV'], transports=2, families=['v4', 'v6'], second_querier=True, port=5353),
}
THOROUGH = {
    'mixed-qm-qu': q((T1, PTR, False), (N1, SRV, True), sighted=['PTR', 'SRV']),
    'both-qu': q((N1, SRV, True), (N1, TXT, True), sighted=['SRV', 'TXT']),
    'probe-qm-sighted': q((T1, PTR, False), probe=True, sighted=['PTR']),
    'same-record-qu-and-qm': q((N1, SRV, True), (N1, SRV, False), sighted=['SRV']),
    'ptr-qm-sighted': q((T1, PTR, False), sighted=['PTR']),
    'two-sockets-probe': q((T1, PTR, True), probe=True, transports=2, sighted=['PTR']),
    'any-qu': q((N1, const._TYPE_ANY, True), sighted=['SRV', 'TXT']),
    'nsec-qu-sighted': q(('alpha.local.', AAAA, True), sighted=['NSEC']),
    'dual-stack-v6-probe': q((T1, PTR, True), probe=True, sighted=['PTR'], transports=2, families=['v4', 'v6']),
    'dual-stack-v4-legacy': q((T1, PTR, False), transports=2, families=['v6', 'v4']),
    'v6-only-qm': q((T1, PTR, False), transports=1, families=['v6']),
}


def obligations(tier: str) -> List[Obligation]:
    shapes = dict(QUICK)
    if tier == 'thorough':
        shapes.update(THOROUGH)
    obs = [Obligation(f'route[{k}]', make(v), 'route', {'name': k, **v}, timeout=120 if tier == 'quick' else 600) for k, v in shapes.items()]
    for dest in ('10.0.0.5', 'fe80::5', '::ffff:10.0.0.5'):
        obs.append(Obligation(f'directed[{dest}]', make_directed({'dest': dest}), 'directed', {'dest': dest}, timeout=120))
    for name, sh in (('multicast', {'multicast': True}), ('unicast-qu', {'multicast': False}), ('unicast-legacy', {'multicast': False, 'legacy': True})):
        obs.append(Obligation(f'wire[{name}]', make_wire(sh), 'wire', sh, timeout=120))
    return obs


META = {
    'explanation': 'One query (1..2 questions, QU/QM per question, probe or not) is delivered to the real listener of a socket-less '
    'instance with one registered service and one or two sockets; source port, query id and, for each previously sighted record, its age '
    '(0..2^42 ms) and cached TTL (1..2^31-1) are z3 integers, so the port-5353 switch, the quarter-TTL switch and the one-second switch are '
    'solver-decided. Destination, socket, id, flags, question echo and the answer sets of the unicast / immediate multicast / delayed '
    'multicast transmissions are compared with the statement. wire[*] obligations run the real packets() with value-carrying packer '
    'stand-ins and read back header id, flags, counts and every class word for symbolic id / class / flush bit.',
    'functions': [
        'zeroconf._listener.AsyncListener.datagram_received (dual-stack shapes)/handle_query_or_defer/_respond_query', 'QueryHandler.handle_assembled_query/async_response',
        '_QueryResponse.add_qu_question_response/add_ucast_question_response/add_mcast_question_response/_has_mcast_within_one_quarter_ttl/'
        '_has_mcast_record_in_last_second', 'answers.construct_outgoing_unicast_answers/construct_outgoing_multicast_answers',
        'Zeroconf.async_send', '_core.async_send_with_transport', '_utils.net.can_send_to', 'DNSRecord.is_recent',
        'DNSOutgoing.packets/_write_record/_write_question/_write_record_class/_insert_short_at_start (wire obligations)',
    ],
    'bounds': {'port': [0, 65535], 'id': [0, 65535], 'age_ms': [0, 2**42], 'cached ttl': [1, 2**31 - 1], 'class (wire)': [0, 32767], 'questions': '<= 2', 'sockets': '1..2 (IPv4; dual-stack shapes: one IPv4 + one IPv6 socket, flow 0..2^20-1 and scope 0..2^32-1 symbolic)'},
    'outside': ['more than two questions, several services', 'byte-level layout beyond id, flags, counts and class words (C01/C14)'],
    'stubs': env.STUBS + ['wire obligations: DNSOutgoing._get_short/_write_int/_write_byte replaced by width-preserving value tokens (vkit.wire)'],
    'float_sites': [],
    'assumptions': ['CrossHair 0.0.110 / z3 5.1.0'],
}
