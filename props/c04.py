"""C04 - browser callbacks alternate add/remove and always match the cache.

Engine E1: real RecordManager, DNSCache, _ServiceBrowserBase (in-loop flavour, Signal handlers recorded)
and the purge routine AsyncEngine._async_cache_cleanup, for enumerated histories of datagrams and
purge ticks with every TTL and every gap between events symbolic.
"""
from __future__ import annotations

from typing import Any, Dict, List, Tuple

from vkit import env
from vkit.build import VOCAB, Spec, mk_incoming
from vkit.model import RefCache
from vkit.runner import Obligation
from zeroconf._services import ServiceStateChange
from zeroconf._services.browser import _ServiceBrowserBase

from .common import T0_MAX, parse_datagram

PROPERTY = 'C04'
T1, T2 = '_http._tcp.local.', '_ipp._tcp.local.'
GAP_MAX = 2**43
TTL_MAX = 2**32 - 1


def make(shape: Dict[str, Any]) -> Any:
    events: List[str] = shape['events']
    types: List[str] = shape.get('types', [T1])
    browser_at: int = shape.get('browser_at', 0)  # index of the event before which the browser is created

    def fn(ctx: Any) -> None:
        t0 = ctx.int('t0', 1, T0_MAX)
        loop = env.begin(ctx, t0)
        env.use_token_packets(True)
        zc = env.make_zc(loop)
        model = RefCache()
        log: List[Tuple[str, str, str]] = []  # (kind, type, instance lower-cased) in delivery order
        inside_ok: List[bool] = []
        current_datagram: List[Any] = []

        def on_change(zeroconf: Any, service_type: str, name: str, state_change: ServiceStateChange) -> None:
            log.append((state_change.name, service_type, name.lower()))
            if state_change is ServiceStateChange.Added:
                aliases = [r.alias.lower() for r in zeroconf.cache.entries_with_name(service_type) if hasattr(r, 'alias')]
                inside_ok.append(name.lower() in aliases)
                for spec, ttl in current_datagram:
                    if ttl != 0:
                        inside_ok.append(zeroconf.cache.get(spec.make(0, 1)) is not None)

        browser = None

        def live_in_model(t: str) -> List[str]:
            return sorted(e.ident[4] for e in model.entries if e.ident[0] == 'PTR' and e.ident[1] == t.lower())

        reported: Dict[Tuple[str, str], bool] = {}

        def account(i: int, ev: str) -> None:
            """Consume the callbacks delivered by event i and compare with the model."""
            nonlocal log
            for kind, t, inst in log:
                if kind == 'Updated':
                    continue
                key = (t, inst)
                if kind == 'Added':
                    ctx.check(not reported.get(key, False), f'event {i} ({ev}): Added for {inst} which is already reported Added')
                    reported[key] = True
                else:
                    ctx.check(reported.get(key, False), f'event {i} ({ev}): Removed for {inst} which is not reported Added')
                    reported[key] = False
            log = []
            for t in types:
                live = sorted(inst for (tt, inst), on in reported.items() if on and tt == t)
                ctx.check(live == live_in_model(t), f'after event {i} ({ev}): browser reports {live} for {t} but the cache holds pointers to {live_in_model(t)}')
                held = sorted(r.alias.lower() for r in zc.cache.entries_with_name(t) if hasattr(r, 'alias'))
                ctx.check(held == live_in_model(t), f'after event {i} ({ev}): cache pointer set {held} differs from the section-10 model {live_in_model(t)}')

        for i, ev in enumerate(events):
            if i > 0:
                loop.now_ms = loop.now_ms + ctx.int(f'gap{i}', 0, GAP_MAX)
            now = loop.now_ms
            if i == browser_at:
                # the property excludes browsers created while an expired-but-unpurged pointer is cached
                for e in model.entries:
                    if e.ident[0] == 'PTR':
                        ctx.assume(not e.expired(now))
                browser = _ServiceBrowserBase(zc, list(types), handlers=[on_change])
                browser._async_start()
                loop.run_ready()
                # replay of cached records to the new listener
                account(i, 'browser start')
            if ev == 'PURGE':
                model.purge(now)
                zc.engine._async_cache_cleanup()
            else:
                recs, items = [], []
                del current_datagram[:]
                for j, (key, flush) in enumerate(parse_datagram(ev)):
                    ttl = ctx.int(f'ttl{i}_{j}', 0, TTL_MAX)
                    recs.append(VOCAB[key].make(ttl, now, flush))
                    items.append((VOCAB[key], ttl, flush))
                    current_datagram.append((VOCAB[key], ttl))
                model.ingest(now, items)
                zc.record_manager.async_updates_from_response(mk_incoming(now, recs))
            if browser is not None:
                if ctx.twin and i == len(events) - 1:
                    return
                account(i, ev)
        ctx.check(all(inside_ok), 'a lookup from inside add_service did not see the records of the triggering datagram')
        ctx.check(not loop.callback_exceptions, f'exception in a callback: {loop.callback_exceptions[:1]}')

    return fn


QUICK = [
    ['P1', 'P1', 'PURGE'],
    ['P1 S1+ T1+ A1+', 'PURGE'],
    ['P1', 'P2', 'PURGE'],
    ['P1 P2', 'P1', 'PURGE'],
    ['P1', 'P1a', 'PURGE'],
    ['P1+', 'P2+', 'PURGE'],
    ['P1', 'PURGE', 'P1'],
    ['P1', 'S1+ T1+', 'A1+'],
    ['P1', 'P1 S1+', 'PURGE'],
    ['P1 A1+', 'P1 S1+ T1+'],
    ['P1', 'S1+ P1', 'PURGE'],
    ['P1', 'P1 P1', 'PURGE'],  # the same pointer twice in one datagram (goodbye + fresh copy in either order when the TTLs say so)
    ['P1', 'P1+', 'PURGE'],  # the same pointer again with the other value of the cache-flush bit
]
THOROUGH = [
    ['P1', 'P1', 'P1', 'PURGE'],
    ['P1 P2', 'PURGE', 'P1 P2', 'PURGE'],
    ['P1', 'PURGE', 'PURGE', 'P1'],
    ['P1+', 'P2+', 'P1+', 'PURGE'],
    ['P1a', 'P1', 'PURGE', 'P1a'],
    ['P1 Q1', 'Q1', 'PURGE'],
    ['P1 S1+ T1+ A1+', 'P1', 'PURGE', 'S1b+'],
    ['P2', 'P1 S1+', 'P2', 'PURGE'],
    ['P1 P1', 'P1', 'PURGE'],
    ['P1+', 'P1', 'PURGE'],
]
PRESTART = [
    (['P1', 'P2', 'PURGE'], 1),
    (['P1', 'P1', 'PURGE'], 1),
    (['P1 P2', 'P1', 'PURGE'], 2),
]


def obligations(tier: str) -> List[Obligation]:
    obs = []
    shapes = QUICK if tier == 'quick' else QUICK + THOROUGH
    for ev in shapes:
        two = any('Q1' in e for e in ev)
        shape = {'events': ev, 'types': [T1, T2] if two else [T1]}
        obs.append(Obligation('browse[' + ' | '.join(ev) + ']', make(shape), 'browse', shape, timeout=150 if tier == 'quick' else 600))
    for ev, at in (PRESTART if tier == 'thorough' else PRESTART[:1]):
        shape = {'events': ev, 'types': [T1], 'browser_at': at}
        obs.append(Obligation(f'late-browser@{at}[' + ' | '.join(ev) + ']', make(shape), 'late-browser', shape, timeout=150 if tier == 'quick' else 600))
    return obs


META = {
    'explanation': 'Real RecordManager + DNSCache + in-loop _ServiceBrowserBase + AsyncEngine._async_cache_cleanup on enumerated histories '
    '(<= 4 events: datagrams with pointer / SRV / TXT / address records, purge ticks; one or two browsed types; browser created at the start or after '
    'cached records exist) with every TTL 0..2^32-1 and every gap 0..2^43 ms symbolic. After every event: per (type, instance) Added/Removed alternate '
    'starting with Added, the set reported Added equals the pointer set of the section-10 model and of the real cache, and lookups from inside add_service '
    'see the triggering datagram.',
    'functions': [
        'zeroconf._services.browser._ServiceBrowserBase.async_update_records/async_update_records_complete/_enqueue_callback/_fire_service_state_changed_event/'
        '_async_start/_names_matching_types', 'QueryScheduler.reschedule_ptr_first_refresh/cancel_ptr_refresh', 'RecordManager.async_updates_from_response/'
        'async_add_listener/_async_update_matching_records', 'AsyncEngine._async_cache_cleanup', 'DNSCache.*', 'zeroconf._utils.name.possible_types',
    ],
    'bounds': {'ttl': [0, TTL_MAX], 't0': [1, T0_MAX], 'gap_ms': [0, GAP_MAX], 'events': '<= 4', 'instances': 'two of one type + one of a second type'},
    'outside': ['threaded ServiceBrowser (queue + thread)', 'sub/super-types, names differing only in case inside one datagram, browsers created while an expired-unpurged pointer is cached (excluded by the property)',
                'Updated callbacks (only their harmlessness to the alternation is checked)'],
    'stubs': env.STUBS + ['scheduler timers are armed but never fired in this harness (C10 covers them)'],
    'float_sites': ['const._DNS_PTR_MIN_TTL = 1125.0 (exact)'],
    'assumptions': ['CrossHair 0.0.110 / z3 5.1.0'],
}
