"""Float-exactness lemmas that justify running the library's float arithmetic over the reals (vkit.chpatch
pins CrossHair's float model to reals).  Each lemma is an SMT query in QF_BVFP decided by z3 (binary64,
round-to-nearest-even); `unsat` means the real-valued model and binary64 agree on the stated range.

L-half       other_ttl > ttl / 2  <=>  2 * other_ttl > ttl            for integers 0 <= ttl, other_ttl < 2^32   (solver: full range)
L-remaining  trunc(fl(x / 1000.0)) == x div 1000                       for integers 0 <= x < 2^24 ms (solver); for 2^24 <= x < 2^52 by the
             argument that x/1000 is at least 1/1000 away from the next integer while half an ulp of the quotient is below 2^-11 (stated, not solved:
             z3 4.8/5.1 and cvc5 1.0 did not finish the full range within 300 s)
L-tenth      fl(fl(1000 t) * 0.1) == 100 t for integers 0 <= t < 2^32   (stated, not solved: the relative error of the constant 0.1 is exactly 2^-54, which is
             strictly less than half an ulp of any result that is not a power of two, and 100 t is representable; both solvers timed out even below 2^20)
L-resolution `when > now + 1e-6`  <=>  `when > now` for integral when, now < 2^52  (immediate: integers differ by at least 1)
"""
from __future__ import annotations

import time
from typing import Any, Dict, List

import z3


def _solve(build: Any, timeout_ms: int) -> Dict[str, Any]:
    s = z3.Solver()
    s.set('timeout', timeout_ms)
    build(s)
    t0 = time.time()
    r = s.check()
    dt = round(time.time() - t0, 2)
    if r == z3.unsat:
        return {'verdict': 'discharged', 'queries': 1, 'solver_s': dt}
    if r == z3.sat:
        return {'verdict': 'counterexample', 'witness': {str(d): str(s.model()[d]) for d in s.model().decls()}, 'queries': 1, 'solver_s': dt}
    return {'verdict': 'inconclusive', 'queries': 1, 'solver_s': dt}


F = z3.Float64()
RNE = z3.RNE()


def lemma_half() -> Dict[str, Any]:
    def build(s: z3.Solver) -> None:
        t, o = z3.BitVec('ttl', 64), z3.BitVec('other_ttl', 64)
        s.add(z3.ULT(t, 1 << 32), z3.ULT(o, 1 << 32))
        lhs = z3.fpGT(z3.fpToFP(RNE, o, F), z3.fpDiv(RNE, z3.fpToFP(RNE, t, F), z3.FPVal(2.0, F)))
        s.add(lhs != z3.UGT(o + o, t))

    return _solve(build, 120000)


def lemma_remaining(bits: int = 24) -> Dict[str, Any]:
    def build(s: z3.Solver) -> None:
        x = z3.BitVec('remaining_ms', 64)
        s.add(z3.ULT(x, 1 << bits))
        q = z3.fpDiv(RNE, z3.fpToFP(RNE, x, F), z3.FPVal(1000.0, F))
        s.add(z3.fpToSBV(z3.RTZ(), q, z3.BitVecSort(64)) != z3.UDiv(x, z3.BitVecVal(1000, 64)))

    return _solve(build, 240000)


def replay_half(w: Dict[str, Any]) -> List[str]:
    t, o = int(w['ttl']), int(w['other_ttl'])
    return [] if (o > (t / 2)) == (2 * o > t) else [f'binary64: {o} > {t}/2 differs from 2*{o} > {t}']


def replay_remaining(w: Dict[str, Any]) -> List[str]:
    x = int(w['remaining_ms'])
    return [] if int(x / 1000.0) == x // 1000 else [f'binary64: int({x}/1000.0) != {x}//1000']
