from __future__ import annotations

import argparse
import importlib
import json
import os
import sys


def main() -> int:
    ap = argparse.ArgumentParser()
    ap.add_argument('pid')
    ap.add_argument('--tier', default=os.environ.get('VERIF_TIER', 'quick'), choices=['quick', 'thorough'])
    ap.add_argument('--replay')
    ap.add_argument('--only', help='regex on obligation ids (development aid; evidence is still written)')
    ap.add_argument('--nproc', type=int)
    a = ap.parse_args()
    pid = a.pid.upper()
    module = f'props.{pid.lower()}'
    if a.replay:
        from .replay import replay

        rec = json.load(open(a.replay))
        out = replay(rec['module'], rec['oid'], rec['witness'])
        print(json.dumps(out, indent=1, default=str))
        if out.get('failures'):
            print(f'VIOLATION property={pid} replay={a.replay}')
            return 1
        return 0
    mod = importlib.import_module(module)
    from .runner import run_property

    obs = mod.obligations(a.tier)
    if a.only:
        import re

        obs = [o for o in obs if re.search(a.only, o.oid)]
    seed = int(os.environ.get('VERIF_SEED', '0') or 0)
    return run_property(pid, module, obs, mod.META, a.tier, seed, a.nproc)


if __name__ == '__main__':
    sys.exit(main())
