"""Symbolic / concrete value context shared by every obligation.

An obligation is a plain Python function ``fn(ctx) -> None`` that builds real library
objects, drives them and reports property violations through ``ctx.check``.  The same
function runs in two modes:

* ``sym``    - under CrossHair: ``ctx.int(...)`` returns a z3-backed integer created *inside*
               the traced function (not through CrossHair's argument factory, whose
               premature-realisation heuristic would silently turn the run into sampling),
               constrained to the stated closed interval.
* ``replay`` - in a plain interpreter: ``ctx.int(...)`` returns the concrete value recorded
               in a witness (or the lower bound when the witness does not mention it).
"""
from __future__ import annotations

from typing import Any, Dict, List, Optional


class Ctx:
    def __init__(self, mode: str, values: Optional[Dict[str, Any]] = None, twin: bool = False):
        assert mode in ('sym', 'replay')
        self.mode = mode
        self.values = dict(values or {})
        self.twin = twin
        self.vars: Dict[str, Any] = {}
        self.bounds: Dict[str, Any] = {}
        self.failures: List[str] = []
        self.notes: List[str] = []
        self._rand_n = 0

    # ------------------------------------------------------------------ variables
    def int(self, name: str, lo: int, hi: int) -> Any:
        assert name not in self.vars, name
        self.bounds[name] = [lo, hi]
        if self.mode == 'replay':
            v = self.values.get(name, lo)
            if not (lo <= v <= hi):
                raise ReplayOutOfBounds(f'{name}={v} outside [{lo},{hi}]')
        else:
            import z3
            from crosshair.libimpl.builtinslib import SymbolicInt
            from crosshair.statespace import context_statespace
            from crosshair.tracers import NoTracing

            # A solver integer made directly (CrossHair's own factory may decide to realise a
            # value up front, which turns exhaustion into sampling); the bound is asserted into
            # the solver, so there is no branch and no ignored path.
            with NoTracing():
                v = SymbolicInt(z3.Int(name))
                context_statespace().add(z3.And(v.var >= lo, v.var <= hi))
        self.vars[name] = v
        return v

    def bool(self, name: str) -> Any:
        return self.int(name, 0, 1) == 1

    def rand(self, lo: int, hi: int) -> Any:
        """A fresh universally quantified draw for one of the library's random.randint calls."""
        self._rand_n += 1
        return self.int(f'rand{self._rand_n}', lo, hi)

    def assume(self, cond: Any) -> None:
        if self.mode == 'replay':
            if not cond:
                raise ReplayOutOfBounds('assumption violated')
            return
        from crosshair.statespace import context_statespace
        from crosshair.tracers import NoTracing

        with NoTracing():
            var = getattr(cond, 'var', None)
            if var is not None:
                context_statespace().add(var)
                return
        if not cond:  # concrete False (or a value without a solver term): reject this path
            from crosshair.util import IgnoreAttempt

            raise IgnoreAttempt()

    # ------------------------------------------------------------------ verdicts
    def check(self, cond: Any, reason: str) -> bool:
        """Record a property violation when cond is false (branches under CrossHair)."""
        if cond:
            return True
        self.failures.append(reason)
        return False

    def note(self, text: str) -> None:
        self.notes.append(text)

    def witness(self) -> Dict[str, Any]:
        if self.mode == 'replay':
            return {k: v for k, v in self.vars.items()}
        from crosshair.core import realize
        from crosshair.tracers import NoTracing

        out = {}
        with NoTracing():
            for k, v in self.vars.items():
                r = realize(v)
                out[k] = bool(r) if isinstance(r, bool) else int(r)
        return out


class ReplayOutOfBounds(Exception):
    pass
