"""Environment kit: exact-millisecond fake event loop, clock / random / network stubs and a
socket-less Zeroconf instance.  Every item here is a stub and therefore part of each claim
that uses it (listed in the evidence files under `stubs`).
"""
from __future__ import annotations

import asyncio
import itertools
import sys
from typing import Any, Callable, List, Optional

# --------------------------------------------------------------------------- seconds


class Sec:
    """A duration / instant in seconds held as exact (possibly symbolic) milliseconds."""

    __slots__ = ('ms',)

    def __init__(self, ms: Any) -> None:
        self.ms = ms

    @staticmethod
    def of(x: Any) -> 'Sec':
        if type(x) is Sec:
            return x
        return Sec(x * 1000)

    def __add__(self, o: Any) -> 'Sec':
        return Sec(self.ms + Sec.of(o).ms)

    __radd__ = __add__

    def __sub__(self, o: Any) -> 'Sec':
        return Sec(self.ms - Sec.of(o).ms)

    def __rsub__(self, o: Any) -> 'Sec':
        return Sec(Sec.of(o).ms - self.ms)

    def __le__(self, o: Any) -> bool:
        return self.ms <= Sec.of(o).ms

    def __lt__(self, o: Any) -> bool:
        return self.ms < Sec.of(o).ms

    def __ge__(self, o: Any) -> bool:
        return self.ms >= Sec.of(o).ms

    def __gt__(self, o: Any) -> bool:
        return self.ms > Sec.of(o).ms

    def __eq__(self, o: Any) -> bool:  # type: ignore[override]
        return self.ms == Sec.of(o).ms

    def __hash__(self) -> int:
        return 0

    def __float__(self) -> float:
        return float(self.ms) / 1000.0

    def __repr__(self) -> str:
        return f'Sec({self.ms!r}ms)'


def millis_to_seconds(ms: Any) -> Sec:
    return Sec(ms)


# --------------------------------------------------------------------------- loop


class Handle:
    __slots__ = ('when_ms', 'cb', 'args', 'seq', 'cancelled_', 'loop')

    def __init__(self, loop: 'FakeLoop', when_ms: Any, cb: Callable, args: tuple, seq: int) -> None:
        self.loop, self.when_ms, self.cb, self.args, self.seq, self.cancelled_ = loop, when_ms, cb, args, seq, False

    def cancel(self) -> None:
        self.cancelled_ = True

    def cancelled(self) -> bool:
        return self.cancelled_

    def when(self) -> Sec:
        return Sec(self.when_ms)


class Fut:
    _asyncio_future_blocking = False

    def __init__(self, loop: 'FakeLoop') -> None:
        self._loop = loop
        self._done = False
        self._res: Any = None
        self._exc: Optional[BaseException] = None
        self._cancelled = False
        self._cbs: List[Callable] = []

    def get_loop(self) -> 'FakeLoop':
        return self._loop

    def done(self) -> bool:
        return self._done

    def cancelled(self) -> bool:
        return self._cancelled

    def _finish(self) -> None:
        self._done = True
        cbs, self._cbs = self._cbs, []
        for cb in cbs:
            self._loop.ready.append((cb, (self,)))

    def set_result(self, r: Any) -> None:
        if self._done:
            raise asyncio.InvalidStateError('result already set')
        self._res = r
        self._finish()

    def set_exception(self, e: BaseException) -> None:
        if self._done:
            raise asyncio.InvalidStateError('result already set')
        self._exc = e
        self._finish()

    def cancel(self, msg: Any = None) -> bool:
        if self._done:
            return False
        self._cancelled = True
        self._finish()
        return True

    def result(self) -> Any:
        if self._cancelled:
            raise asyncio.CancelledError()
        if self._exc is not None:
            raise self._exc
        return self._res

    def exception(self) -> Optional[BaseException]:
        if self._cancelled:
            raise asyncio.CancelledError()
        return self._exc

    def add_done_callback(self, cb: Callable, context: Any = None) -> None:
        if self._done:
            self._loop.ready.append((cb, (self,)))
        else:
            self._cbs.append(cb)

    def remove_done_callback(self, cb: Callable) -> int:
        n = len(self._cbs)
        self._cbs = [c for c in self._cbs if c != cb]
        return n - len(self._cbs)

    def __await__(self):  # type: ignore[no-untyped-def]
        if not self._done:
            self._asyncio_future_blocking = True
            yield self
        return self.result()

    __iter__ = __await__


class Task(Fut):
    def __init__(self, loop: 'FakeLoop', coro: Any) -> None:
        super().__init__(loop)
        self.coro = coro
        self._must_cancel = False
        self._waiting: Optional[Fut] = None
        self._num_cancels = 0
        loop.tasks.append(self)
        loop.ready.append((self._step, ()))

    def cancelling(self) -> int:
        return self._num_cancels

    def uncancel(self) -> int:
        if self._num_cancels > 0:
            self._num_cancels -= 1
        return self._num_cancels

    def cancel(self, msg: Any = None) -> bool:
        if self._done:
            return False
        self._num_cancels += 1
        if self._waiting is not None and self._waiting.cancel():
            # as asyncio does: the future the task is waiting on is cancelled (whoever else holds it sees a cancelled future
            # from now on); its done-callback wakes the task, which finds CancelledError when it asks for the result
            return True
        self._must_cancel = True
        if self._waiting is not None:
            w, self._waiting = self._waiting, None
            w.remove_done_callback(self._wakeup)
            self._loop.ready.append((self._step, ()))
        return True

    def _wakeup(self, fut: Fut) -> None:
        self._waiting = None
        self._step()

    def _step(self, *_: Any) -> None:
        if self._done:
            return
        loop = self._loop
        asyncio.tasks._enter_task(loop, self)  # type: ignore[attr-defined]
        try:
            try:
                if self._must_cancel:
                    self._must_cancel = False
                    f = self.coro.throw(asyncio.CancelledError())
                else:
                    f = self.coro.send(None)
            except StopIteration as e:
                self._res = e.value
                self._finish()
            except asyncio.CancelledError:
                self._cancelled = True
                self._finish()
            except Exception as e:  # CrossHair control flow is BaseException and passes through
                self._exc = e
                loop.task_exceptions.append(e)
                self._finish()
            else:
                if f is None:
                    loop.ready.append((self._step, ()))
                else:
                    f._asyncio_future_blocking = False
                    self._waiting = f
                    f.add_done_callback(self._wakeup)
        finally:
            asyncio.tasks._leave_task(loop, self)  # type: ignore[attr-defined]


class FakeLoop:
    """Single-threaded deterministic loop with an exact millisecond clock.

    Timers fire exactly at their deadline, in (deadline, insertion) order; ready callbacks run to
    quiescence before the clock moves.  Exceptions escaping a timer / ready callback are recorded in
    `callback_exceptions` (the analogue of the event-loop exception handler).
    """

    def __init__(self, now_ms: Any) -> None:
        self.now_ms = now_ms
        self.timers: List[Handle] = []
        self.ready: List[Any] = []
        self.tasks: List[Task] = []
        self.seq = itertools.count()
        self.callback_exceptions: List[BaseException] = []
        self.task_exceptions: List[BaseException] = []
        self.closed = False

    # -- asyncio API subset
    def time(self) -> Sec:
        return Sec(self.now_ms)

    def call_at(self, when: Any, cb: Callable, *args: Any, context: Any = None) -> Handle:
        h = Handle(self, Sec.of(when).ms, cb, args, next(self.seq))
        self.timers.append(h)
        return h

    def call_later(self, delay: Any, cb: Callable, *args: Any, context: Any = None) -> Handle:
        return self.call_at(self.time() + delay, cb, *args)

    def call_soon(self, cb: Callable, *args: Any, context: Any = None) -> Handle:
        h = Handle(self, self.now_ms, cb, args, next(self.seq))
        self.ready.append(h)
        return h

    call_soon_threadsafe = call_soon

    def create_future(self) -> Fut:
        return Fut(self)

    def create_task(self, coro: Any, **kw: Any) -> Task:
        return Task(self, coro)

    def is_running(self) -> bool:
        return True

    def is_closed(self) -> bool:
        return self.closed

    def get_debug(self) -> bool:
        return False

    def call_exception_handler(self, context: Any) -> None:
        self.callback_exceptions.append(context.get('exception') or RuntimeError(str(context)))

    # -- driving
    def _run_one(self, item: Any) -> None:
        if isinstance(item, Handle):
            if item.cancelled_:
                return
            cb, args = item.cb, item.args
        else:
            cb, args = item
        try:
            cb(*args)
        except Exception as e:
            self.callback_exceptions.append(e)

    def _collect_due(self) -> None:
        """Move every timer due at the current instant to the ready queue, behind what is already queued -
        as asyncio's _run_once does at the start of each iteration."""
        while True:
            h = self.next_timer()
            if h is None or h.when_ms > self.now_ms:
                return
            self.timers.remove(h)
            self.ready.append(h)

    def run_ready(self) -> None:
        """Run loop iterations at the current instant until nothing is ready and no timer is due."""
        n = 0
        while True:
            self._collect_due()
            if not self.ready:
                return
            for _ in range(len(self.ready)):  # one iteration: what was ready when it started
                self._run_one(self.ready.pop(0))
                n += 1
                assert n < 5000, 'ready queue does not drain'

    def next_timer(self) -> Optional[Handle]:
        best: Optional[Handle] = None
        live = []
        for h in self.timers:
            if h.cancelled_:
                continue
            live.append(h)
            if best is None or h.when_ms < best.when_ms or (h.when_ms == best.when_ms and h.seq < best.seq):
                best = h
        self.timers = live
        return best

    def advance_to(self, t_ms: Any) -> None:
        """Run everything due up to and including t_ms, then set the clock to t_ms."""
        self.run_ready()
        n = 0
        while True:
            h = self.next_timer()
            if h is None or h.when_ms > t_ms:
                break
            if h.when_ms > self.now_ms:
                self.now_ms = h.when_ms
            self.run_ready()
            n += 1
            assert n < 5000, 'timer storm'
        if t_ms > self.now_ms:
            self.now_ms = t_ms

    def step(self) -> bool:
        """Advance to the next pending timer (whatever its deadline) and run that instant to quiescence."""
        self.run_ready()
        h = self.next_timer()
        if h is None:
            return False
        if h.when_ms > self.now_ms:
            self.now_ms = h.when_ms
        self.run_ready()
        return True

    def advance_by(self, d_ms: Any) -> None:
        self.advance_to(self.now_ms + d_ms)

    def run_until_idle(self, limit_ms: Any) -> None:
        self.advance_to(limit_ms)

    def pending_timers(self) -> List[Handle]:
        return [h for h in self.timers if not h.cancelled_]


# --------------------------------------------------------------------------- installation


class _Cur:
    loop: Optional[FakeLoop] = None
    ctx: Any = None
    rand_log: List[Any] = []


CUR = _Cur()


def CUR_RAND_LOG() -> List[Any]:
    return list(_LAST_RAND_LOG)


_LAST_RAND_LOG: List[Any] = []


def _now() -> Any:
    assert CUR.loop is not None
    return CUR.loop.now_ms


def _randint(lo: int, hi: int) -> Any:
    replay = getattr(CUR, 'rand_replay', None)
    if replay:
        plo, phi, v = replay.pop(0)
        assert (plo, phi) == (lo, hi), 'random draws of the two runs are not aligned'
        CUR.rand_log.append((lo, hi, v))
        _LAST_RAND_LOG.append((lo, hi, v))
        return v
    if getattr(CUR, 'fixed_rand', False):
        v = lo  # timing is not the subject of this obligation: every draw takes its lower bound
    else:
        v = CUR.ctx.rand(lo, hi)
    CUR.rand_log.append((lo, hi, v))
    _LAST_RAND_LOG.append((lo, hi, v))
    return v


_CLOCK_MODULES = (
    'zeroconf._dns',
    'zeroconf._cache',
    'zeroconf._core',
    'zeroconf._engine',
    'zeroconf._listener',
    'zeroconf._protocol.incoming',
    'zeroconf._handlers.record_manager',
    'zeroconf._handlers.multicast_outgoing_queue',
    'zeroconf._services.browser',
    'zeroconf._services.info',
    'zeroconf._utils.asyncio',
)

STUBS = [
    'clock: per-module current_time_millis rebound to the fake loop integer-ms clock (symbolic start / gaps)',
    'millis_to_seconds rebound to exact Sec(ms); binary64 rounding of ms/1000.0 at the loop boundary ignored',
    'event loop: vkit.env.FakeLoop (timers fire exactly on time, (deadline, insertion) order)',
    'randomness: RAND_INT / random.randint / randint rebound to fresh solver variables in the requested closed interval',
    'network: FakeTransport records (virtual time, DNSOutgoing, destination); DNSOutgoing.packets() returns an opaque token per message when TTLs are symbolic (wire encoding has its own obligations under C01/C14)',
    'floats: CrossHair float pinned to the real-valued model',
    'hash: the name `hash` in zeroconf._dns is bound to the native tuple hash (CrossHair would return a symbolic int)',
]

_installed = False


def _native_hash(obj: Any) -> int:
    return obj.__hash__()


class _FakeRandom:
    """Stands in for the `random` module inside browser.py / _listener.py."""

    @staticmethod
    def randint(lo: int, hi: int) -> Any:
        return _randint(lo, hi)


def install_stubs() -> None:
    """Rebind clock, seconds conversion and randomness in the library modules (idempotent)."""
    global _installed
    if _installed:
        return
    import importlib

    import zeroconf  # noqa: F401

    for name in _CLOCK_MODULES:
        mod = importlib.import_module(name)
        if hasattr(mod, 'current_time_millis'):
            mod.current_time_millis = _now  # type: ignore[attr-defined]
        if hasattr(mod, 'millis_to_seconds'):
            mod.millis_to_seconds = millis_to_seconds  # type: ignore[attr-defined]
    import zeroconf._handlers.multicast_outgoing_queue as moq
    import zeroconf._listener as lst
    import zeroconf._services.browser as br
    import zeroconf._services.info as inf

    import zeroconf._dns as dns

    # CrossHair models hash(str) as a nondeterministic symbolic integer, which CPython's dict rejects
    # when it comes back from __hash__; record hashes are computed natively from the (concrete) tuple.
    dns.hash = _native_hash  # type: ignore[attr-defined]
    moq.RAND_INT = _randint
    br.random = _FakeRandom  # type: ignore[attr-defined]
    lst.random = _FakeRandom  # type: ignore[attr-defined]
    inf.randint = _randint
    _installed = True


def begin(ctx: Any, start_ms: Any, rand_replay: Optional[List[Any]] = None, fixed_rand: bool = False) -> FakeLoop:
    """Start one execution (one symbolic path or one replay): fresh loop, fresh random log.

    rand_replay: draws (lo, hi, value) of an earlier run to hand out again in order ("identical seeds")."""
    install_stubs()
    CUR.rand_replay = list(rand_replay) if rand_replay else None  # type: ignore[attr-defined]
    CUR.fixed_rand = fixed_rand  # type: ignore[attr-defined]
    loop = FakeLoop(start_ms)
    CUR.loop = loop
    CUR.ctx = ctx
    CUR.rand_log = []
    del _LAST_RAND_LOG[:]
    asyncio._set_running_loop(loop)  # type: ignore[attr-defined]
    # process-wide memories of the library ("log this only once"): every path / replay starts from the same empty state
    # (obligations about a full memo fill it explicitly afterwards); lru_caches key on concrete strings only: nothing to reset
    import zeroconf._logger as _zl
    import zeroconf._protocol.incoming as _zi

    _zl.QuietLogger._seen_logs.clear()
    _zi._seen_logs.clear()
    return loop


def end() -> None:
    asyncio._set_running_loop(None)  # type: ignore[attr-defined]
    CUR.loop = None
    CUR.ctx = None


# --------------------------------------------------------------------------- network


class PacketToken(bytes):
    """Opaque stand-in for the encoded bytes of one DNSOutgoing (keeps the real async_send path)."""

    out: Any = None

    def __new__(cls, out: Any) -> 'PacketToken':
        o = bytes.__new__(cls, b'')
        o.out = out
        return o


class FakeTransport:
    def __init__(self, loop: FakeLoop, name: str) -> None:
        self.loop = loop
        self.name = name
        self.sent: List[Any] = []
        self.closed = False

    def sendto(self, packet: bytes, addr: Any) -> None:
        assert not self.closed, 'sendto on a closed transport'
        self.sent.append((self.loop.now_ms, packet, addr))

    def close(self) -> None:
        self.closed = True

    def is_closing(self) -> bool:
        return self.closed

    def get_extra_info(self, name: str, default: Any = None) -> Any:
        return default


class Sent:
    """One recorded transmission."""

    __slots__ = ('t', 'out', 'addr', 'port', 'transport', 'packet', 'dest')

    def __init__(self, t: Any, out: Any, addr: Any, port: Any, transport: str, packet: bytes) -> None:
        self.t, self.out, self.addr, self.port, self.transport, self.packet = t, out, addr, port, transport, packet
        self.dest: Any = (addr, port)

    @property
    def multicast(self) -> bool:
        return self.addr in ('224.0.0.251', 'ff02::fb') and self.port == 5353

    def records(self) -> List[Any]:
        o = self.out
        return [a for a, _ in o.answers] + list(o.authorities) + list(o.additionals)

    def __repr__(self) -> str:
        return f'<Sent t={self.t} to={self.addr}:{self.port} via={self.transport} out={self.out!r}>'


def make_zc(loop: FakeLoop, token_packets: bool = True, n_transports: int = 1, families: Any = None) -> Any:
    """A Zeroconf instance built without sockets or threads (all attributes as in __init__)."""
    import asyncio as aio

    from zeroconf._cache import DNSCache
    from zeroconf._core import _AGGREGATION_DELAY, _PROTECTED_AGGREGATION_DELAY, Zeroconf
    from zeroconf._engine import AsyncEngine
    from zeroconf._handlers.multicast_outgoing_queue import MulticastOutgoingQueue
    from zeroconf._handlers.query_handler import QueryHandler
    from zeroconf._handlers.record_manager import RecordManager
    from zeroconf._history import QuestionHistory
    from zeroconf._listener import AsyncListener
    from zeroconf._services.registry import ServiceRegistry
    from zeroconf._transport import _WrappedTransport
    from zeroconf.const import _ONE_SECOND

    zc = Zeroconf.__new__(Zeroconf)
    zc.done = False
    zc.unicast = False
    zc.engine = AsyncEngine(zc, None, [])
    zc.engine.loop = loop  # type: ignore[assignment]
    zc.engine.running_event = aio.Event()
    zc.engine.running_event.set()
    zc.browsers = {}
    zc.registry = ServiceRegistry()
    zc.cache = DNSCache()
    zc.question_history = QuestionHistory()
    zc.out_queue = MulticastOutgoingQueue(zc, 0, _AGGREGATION_DELAY)
    zc.out_delay_queue = MulticastOutgoingQueue(zc, _ONE_SECOND, _PROTECTED_AGGREGATION_DELAY)
    zc.query_handler = QueryHandler(zc)
    zc.record_manager = RecordManager(zc)
    zc._notify_futures = set()
    zc.loop = loop  # type: ignore[assignment]
    zc._loop_thread = None
    transports = []
    for i in range(n_transports):
        v6 = bool(families) and families[i] == 'v6'
        ft = FakeTransport(loop, f'sock{i}')
        ft.v6 = v6  # type: ignore[attr-defined]
        wt = _WrappedTransport(ft, v6, None, 7 + i, ('::', 5353, 0, 0) if v6 else ('0.0.0.0', 5353))  # type: ignore[arg-type]
        transports.append(wt)
        zc.engine.senders.append(wt)
        zc.engine.readers.append(wt)
        proto = AsyncListener(zc)
        proto.transport = wt
        proto.sock_description = f'{7 + i} (fake)'
        zc.engine.protocols.append(proto)
    zc._vk_token_packets = token_packets  # type: ignore[attr-defined]
    return zc


def sent_log(zc: Any) -> List[Sent]:
    """All transmissions of the instance in send order (per transport order preserved by time, seq)."""
    out: List[Sent] = []
    for wt in zc.engine.senders:
        ft = wt.transport
        for t, packet, addr in ft.sent:
            o = getattr(packet, 'out', None)
            snt = Sent(t, o, addr[0], addr[1], ft.name, packet)
            snt.dest = tuple(addr)
            out.append(snt)
    return out


_orig_packets = None


def use_token_packets(enable: bool) -> None:
    """Swap DNSOutgoing.packets for the opaque-token version (or restore the real encoder)."""
    global _orig_packets
    from zeroconf._protocol.outgoing import DNSOutgoing

    if _orig_packets is None:
        _orig_packets = DNSOutgoing.packets
    if enable:

        def packets(self: Any) -> List[bytes]:
            return [PacketToken(self)]

        DNSOutgoing.packets = packets  # type: ignore[method-assign]
    else:
        DNSOutgoing.packets = _orig_packets  # type: ignore[method-assign]
