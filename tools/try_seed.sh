#!/bin/sh
# try_seed.sh <seed> <PID> <tier> [only-regex]: apply seed to a scratch worktree and run one check against it
sd=$1; pid=$2; tier=$3; only=$4
wt=/tmp/tryseed/$sd-$pid; rm -rf $wt; mkdir -p /tmp/tryseed
git -C /repo worktree add --detach $wt HEAD >/dev/null 2>&1
git -C $wt apply /verif/seeded/$sd/patch.diff || { echo NOAPPLY; exit 2; }
cd /verif
if [ -n "$only" ]; then
VERIF_REPO_SRC=$wt/src VERIF_EVIDENCE_DIR=$wt/_ev ./check $pid --tier $tier --only "$only" 2>&1 | grep -E "^VIOLATION|^  |^C[0-9]+ \[|HARNESS" | head -8
else
VERIF_REPO_SRC=$wt/src VERIF_EVIDENCE_DIR=$wt/_ev ./check $pid --tier $tier 2>&1 | grep -E "^VIOLATION|^  |^C[0-9]+ \[|HARNESS" | head -8
fi
git -C /repo worktree remove --force $wt
