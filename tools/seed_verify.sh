#!/bin/sh
# tools/seed_verify.sh <seed dir>...   Confirm a seeded change independently in a scratch worktree of /repo HEAD:
#   patch applies, demo fails with it, the full test suite passes with it, demo passes without it.
# Writes <seed dir>/verify.json.  The worktree is removed afterwards.
for d in "$@"; do
  name=$(basename "$d")
  wt=/tmp/seedverify/$name
  rm -rf "$wt"; mkdir -p /tmp/seedverify
  git -C /repo worktree add --detach "$wt" HEAD >/dev/null 2>&1 || { echo "$name: worktree failed"; continue; }
  applies=false; demo_with=; demo_without=; tests=
  ( cd "$wt" && PYTHONPATH="$wt/src" /venv/bin/python "$d/demo.py" >/dev/null 2>&1 ); demo_without=$?
  if ( cd "$wt" && git apply "$d/patch.diff" ) 2>/dev/null; then
    applies=true
    ( cd "$wt" && PYTHONPATH="$wt/src" /venv/bin/python "$d/demo.py" >/dev/null 2>&1 ); demo_with=$?
    tests=$( cd "$wt" && flock /tmp/zc-pytest.lock /venv/bin/python -m pytest -q -p no:cacheprovider --timeout=900 2>&1 | tail -1 )
  fi
  printf '{"seed": "%s", "base": "%s", "patch_applies": %s, "demo_exit_without": "%s", "demo_exit_with": "%s", "tests_with_patch": "%s"}\n' \
    "$name" "$(git -C /repo rev-parse --short HEAD)" "$applies" "$demo_without" "$demo_with" "$tests" > "$d/verify.json"
  cat "$d/verify.json"
  git -C /repo worktree remove --force "$wt"
done
