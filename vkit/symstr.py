"""A string whose *structure* (length, positions of dots) is concrete and whose other characters are
solver integers (code points from a stated alphabet).  It implements the part of the `str` interface that
zeroconf._utils.name.service_type_name uses, so that the real function body runs on it under CrossHair.
In native replay the obligations call the real function on a real `str` instead.
"""
from __future__ import annotations

import re
from typing import Any, List, Optional, Sequence, Tuple, Union

from .pkt import is_symbolic


def _cp(ch: str) -> int:
    return ord(ch)


class SymStr:
    def __init__(self, chars: Sequence[Any]) -> None:
        self.chars = list(chars)  # code points: int or symbolic int

    # ---- construction helpers
    @staticmethod
    def of(s: Union[str, 'SymStr']) -> 'SymStr':
        return s if isinstance(s, SymStr) else SymStr([_cp(c) for c in s])

    # ---- str protocol (subset)
    def __len__(self) -> int:
        return len(self.chars)

    def __bool__(self) -> bool:
        return len(self.chars) > 0

    def __getitem__(self, k: Any) -> 'SymStr':
        if isinstance(k, slice):
            return SymStr(self.chars[k])
        return SymStr([self.chars[k]])  # IndexError for an empty string, as str

    def __add__(self, other: Any) -> 'SymStr':
        return SymStr(self.chars + SymStr.of(other).chars)

    def __radd__(self, other: Any) -> 'SymStr':
        return SymStr(SymStr.of(other).chars + self.chars)

    def __eq__(self, other: Any) -> Any:  # type: ignore[override]
        if not isinstance(other, (str, SymStr)):
            return False
        o = SymStr.of(other)
        if len(o.chars) != len(self.chars):
            return False
        ok: Any = True
        for a, b in zip(self.chars, o.chars):
            ok = ok & (a == b)  # `&` on solver booleans builds a conjunction (no fork per character)
        return ok

    def __ne__(self, other: Any) -> Any:  # type: ignore[override]
        return not self.__eq__(other)

    def __hash__(self) -> int:
        return 0

    def __contains__(self, sub: Any) -> Any:
        s = SymStr.of(sub)
        n = len(s.chars)
        if n == 0:
            return True
        found: Any = False
        for i in range(0, len(self.chars) - n + 1):
            found = found | (SymStr(self.chars[i:i + n]) == s)
        return found

    def endswith(self, suffix: Any) -> Any:
        if isinstance(suffix, tuple):
            r: Any = False
            for s in suffix:
                r = r | self.endswith(s)
            return r
        s = SymStr.of(suffix)
        if len(s.chars) > len(self.chars):
            return False
        return SymStr(self.chars[len(self.chars) - len(s.chars):]) == s

    def startswith(self, prefix: Any) -> Any:
        s = SymStr.of(prefix)
        if len(s.chars) > len(self.chars):
            return False
        return SymStr(self.chars[:len(s.chars)]) == s

    def split(self, sep: str) -> List['SymStr']:
        assert sep == '.'
        out: List[SymStr] = []
        cur: List[Any] = []
        for c in self.chars:
            if not is_symbolic(c) and c == 46:  # dots are structural (concrete); other characters are assumed != '.'
                out.append(SymStr(cur))
                cur = []
            else:
                cur.append(c)
        out.append(SymStr(cur))
        return out

    def encode(self, *a: Any) -> Any:
        from .pkt import Blob

        return Blob(self.utf8_len())

    def utf8_len(self) -> Any:
        total: Any = 0
        for c in self.chars:
            if not is_symbolic(c):
                total = total + (1 if c < 0x80 else 2 if c < 0x800 else 3 if c < 0x10000 else 4)
            else:
                total = total + width_term(c)
        return total

    def __str__(self) -> str:
        return '<symbolic string>'

    __repr__ = __str__

    def __mod__(self, other: Any) -> str:  # pragma: no cover
        return '<symbolic string>'

    def concrete(self) -> str:
        return ''.join(chr(int(c)) for c in self.chars)


def width_term(c: Any) -> Any:
    """UTF-8 width of a symbolic code point as one solver term (no forks)."""
    import z3
    from crosshair.libimpl.builtinslib import SymbolicInt
    from crosshair.tracers import NoTracing

    with NoTracing():
        v = c.var
        return SymbolicInt(1 + z3.If(v >= 0x80, 1, 0) + z3.If(v >= 0x800, 1, 0) + z3.If(v >= 0x10000, 1, 0))


def join(sep: str, parts: Sequence[Any]) -> SymStr:
    out: List[Any] = []
    for i, p in enumerate(parts):
        if i:
            out += [_cp(ch) for ch in sep]
        out += SymStr.of(p).chars
    return SymStr(out)


class ClassPattern:
    """Stand-in for a compiled regex of the form `[class]` (search) or `^[class]+$` (whole string), rebuilt from the real pattern text."""

    def __init__(self, real: 're.Pattern[str]') -> None:
        self.pattern = real.pattern
        parsed = re._parser.parse(real.pattern)  # type: ignore[attr-defined]
        items = list(parsed)
        self.whole = False
        IN, RANGE, LITERAL = re._constants.IN, re._constants.RANGE, re._constants.LITERAL  # type: ignore[attr-defined]
        AT, MAX_REPEAT = re._constants.AT, re._constants.MAX_REPEAT  # type: ignore[attr-defined]
        if len(items) == 1 and items[0][0] is IN:
            cls = items[0][1]
        elif (len(items) == 3 and items[0][0] is AT and items[0][1] is re._constants.AT_BEGINNING  # type: ignore[attr-defined]
              and items[1][0] is MAX_REPEAT and items[1][1][0] == 1 and len(items[1][1][2]) == 1 and items[1][1][2][0][0] is IN
              and items[2][0] is AT and items[2][1] in (re._constants.AT_END, re._constants.AT_END_STRING)):  # type: ignore[attr-defined]
            cls = items[1][1][2][0][1]
            self.whole = True
            self.dollar = items[2][1] is re._constants.AT_END  # type: ignore[attr-defined]  `$` also matches before a final newline
        else:
            raise NotImplementedError(f'pattern {real.pattern!r} is outside the supported forms')
        self.ranges: List[Tuple[int, int]] = []
        for kind, val in cls:
            if kind is RANGE:
                self.ranges.append((val[0], val[1]))
            elif kind is LITERAL:
                self.ranges.append((val, val))
            else:
                raise NotImplementedError(f'class item {kind} in {real.pattern!r}')

    def in_class(self, c: Any) -> Any:
        r: Any = False
        for lo, hi in self.ranges:
            r = r | ((lo <= c) & (c <= hi))
        return r

    def search(self, s: Any) -> Any:
        chars = SymStr.of(s).chars
        if not self.whole:
            found: Any = False
            for c in chars:
                found = found | self.in_class(c)
            return found
        # ^[class]+$ : one or more class characters up to the end, or up to a final newline when the anchor is `$`
        def all_in(cs: Sequence[Any]) -> Any:
            ok: Any = len(cs) > 0
            for c in cs:
                ok = ok & self.in_class(c)
            return ok

        res = all_in(chars)
        if self.dollar and len(chars) >= 2:
            res = res | ((chars[-1] == 10) & all_in(chars[:-1]))
        return res
