"""A simulated link: every multicast datagram a host transmits is delivered to every attached host (and
looped back to the sender at once, as a multicast socket with IP_MULTICAST_LOOP does); unicast datagrams go to
the addressed host.  Datagrams are tokens converted to DNSIncoming objects at delivery (the real
AsyncListener.datagram_received, duplicate guard and dispatch run).  Used by C07 (several hosts) and, with a
single host, as the loop-back of the instance's own multicast (C12, C16)."""
from __future__ import annotations

from typing import Any, Dict, List, Optional

import zeroconf._listener as lst
from zeroconf import const
from zeroconf._dns import DNSAddress, DNSNsec, DNSPointer, DNSService, DNSText

from . import env
from .build import mk_incoming


def clone(r: Any, now: Any, ttl: Any) -> Any:
    c = r.class_ | (const._CLASS_UNIQUE if r.unique else 0)
    if isinstance(r, DNSAddress):
        return DNSAddress(r.name, r.type, c, ttl, r.address, r.scope_id, now)
    if isinstance(r, DNSPointer):
        return DNSPointer(r.name, r.type, c, ttl, r.alias, now)
    if isinstance(r, DNSText):
        return DNSText(r.name, r.type, c, ttl, r.text, now)
    if isinstance(r, DNSService):
        return DNSService(r.name, r.type, c, ttl, r.priority, r.weight, r.port, r.server, now)
    if isinstance(r, DNSNsec):
        return DNSNsec(r.name, r.type, c, ttl, r.next_name, list(r.rdtypes), now)
    raise AssertionError(type(r))


class Link:
    def __init__(self, loop: Any, ctx: Any, drop: Optional[int], symbolic: List[int], dup: Optional[int] = None) -> None:
        self.loop, self.ctx, self.drop, self.symbolic, self.dup = loop, ctx, drop, symbolic, dup
        self.hosts: Dict[str, Any] = {}
        self.n = 0
        self.table: Dict[bytes, Any] = {}
        self.trace: List[Any] = []

    def attach(self, ip: str, zc: Any) -> None:
        self.hosts[ip] = zc
        ft = zc.engine.senders[0].transport
        record = ft.sendto  # keep the transport's own log (env.sent_log) and its closed-socket assertion

        def sendto(packet: Any, addr: Any, ip: str = ip) -> None:
            record(packet, addr)
            self.send(ip, packet, addr)

        ft.sendto = sendto  # type: ignore[method-assign]

    def send(self, src: str, packet: Any, addr: Any) -> None:
        k = self.n
        self.n += 1
        out = packet.out
        self.trace.append((self.loop.now_ms, src, k, out))
        if k == self.drop:
            return
        delay = self.ctx.int(f'delay{k}', 0, 100) if k in self.symbolic else 1
        data = f'dgram{k}'.encode()
        flags = out.flags

        def build(now: Any, out: Any = out, data: bytes = data) -> Any:
            recs = [clone(r, now, r.ttl if t == 0 else int(r.get_remaining_ttl(t))) for r, t in out.answers]
            recs += [clone(r, now, r.ttl) for r in out.authorities] + [clone(r, now, r.ttl) for r in out.additionals]
            return mk_incoming(now, recs, out.questions, flags, (src, 5353), out.id, len(out.authorities), data)

        self.table[data] = build
        for ip, zc in self.hosts.items():
            multicast = addr[0] in ('224.0.0.251', 'ff02::fb')
            if multicast or addr[0] == ip:
                d = 0 if ip == src else delay
                self.loop.call_at(env.Sec(self.loop.now_ms + d), self.deliver, zc, data, src)
                if k == self.dup and ip != src:
                    # link-layer duplication: a second copy of this datagram, up to 100 ms after the first
                    self.loop.call_at(env.Sec(self.loop.now_ms + d + self.ctx.int(f'dupdelay{k}_{ip[-1]}', 0, 100)), self.deliver, zc, data, src)

    def deliver(self, zc: Any, data: bytes, src: str) -> None:
        if zc.done:
            return
        saved = lst.DNSIncoming
        lst.DNSIncoming = lambda d, source=None, scope_id=None, now=None: self.table[d](now)  # type: ignore[misc,assignment]
        try:
            zc.engine.protocols[0].datagram_received(data, (src, 5353))
        finally:
            lst.DNSIncoming = saved  # type: ignore[misc]
