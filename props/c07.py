"""C07 (smallest configuration only) - discovery converges on a two-host link.

The property quantifies over 2..5 hosts, 1..6 services and all delivery schedules; what is decided here is
its smallest instance: two socket-less instances on one fake loop joined by a link that delivers every
multicast datagram to both hosts (and back to the sender), with the registration instant and the delay of
selected datagrams symbolic (0..100 ms) and one chosen datagram dropped.  Everything larger is outside
the claim (see DESIGN.md 4 C07).
"""
from __future__ import annotations

from typing import Any, Dict, List, Optional

from vkit import env
from vkit.link import Link
from vkit.responder import V4A, V4C, Svc
from vkit.runner import Obligation
from zeroconf import const
from zeroconf._services import ServiceListener
from zeroconf._services.info import AsyncServiceInfo
from zeroconf.asyncio import AsyncServiceBrowser

PROPERTY = 'C07'
T1 = '_http._tcp.local.'
N1 = 'Alpha._http._tcp.local.'
N3 = 'Gamma._http._tcp.local.'


class L(ServiceListener):
    def __init__(self, loop: Any, log: List[Any], lookups: List[Any]) -> None:
        self.loop, self.log, self.lookups = loop, log, lookups

    def add_service(self, zc: Any, type_: str, name: str) -> None:
        self.log.append((self.loop.now_ms, 'Added', name))
        info = AsyncServiceInfo(type_, name)
        self.lookups.append((info, self.loop.create_task(info.async_request(zc, 3000))))

    def remove_service(self, zc: Any, type_: str, name: str) -> None:
        self.log.append((self.loop.now_ms, 'Removed', name))

    def update_service(self, zc: Any, type_: str, name: str) -> None:
        pass


def make(shape: Dict[str, Any]) -> Any:
    def fn(ctx: Any) -> None:
        t0 = 1_000_000
        loop = env.begin(ctx, t0, fixed_rand=True)
        env.use_token_packets(True)
        link = Link(loop, ctx, shape.get('drop'), shape.get('symbolic', []), shape.get('dup'))
        za, zb = env.make_zc(loop), env.make_zc(loop)
        link.attach('10.0.0.1', za)
        link.attach('10.0.0.2', zb)
        za.engine._async_schedule_next_cache_cleanup()  # the periodic purge runs on every host, as after a real start
        zb.engine._async_schedule_next_cache_cleanup()
        log: List[Any] = []
        lookups: List[Any] = []
        log_c: List[Any] = []
        lookups_c: List[Any] = []
        if shape.get('third_host'):
            # a third host that browses the same type and has a service of its own (registered long ago)
            zc3 = env.make_zc(loop)
            link.attach('10.0.0.3', zc3)
            zc3.engine._async_schedule_next_cache_cleanup()
            zc3.registry.async_add(Svc('S3', T1, N3, 'gamma.local.', 8083, [V4C], []).info())
            AsyncServiceBrowser(zc3, T1, listener=L(loop, log_c, lookups_c))
        if shape.get('browser_first', True):
            AsyncServiceBrowser(zb, T1, listener=L(loop, log, lookups))
        loop.advance_by(ctx.int('register_at', 0, shape.get('register_max', 300)))
        svc = Svc('S1', T1, N1, 'alpha.local.', 80, [V4A], [])
        info = svc.info()
        if shape.get('second_service'):
            # another service of the same host, registered long ago (directly in the registry)
            za.registry.async_add(Svc('S2', T1, 'Beta._http._tcp.local.', 'alpha.local.', 81, [V4A], []).info())
        reg = loop.create_task(za.async_register_service(info))
        started = loop.now_ms
        if not shape.get('browser_first', True):
            loop.advance_by(ctx.int('browse_at', 0, 1500))
            AsyncServiceBrowser(zb, T1, listener=L(loop, log, lookups))
        loop.advance_to(started + (ctx.int('withdraw_after', 900, 1800) if shape.get('early_withdraw') else 6000))
        if ctx.twin:
            return
        ctx.check(not loop.callback_exceptions and not loop.task_exceptions, f'exception: {(loop.callback_exceptions + loop.task_exceptions)[:1]!r}')
        ctx.check(reg.done() and reg._exc is None, 'registration did not complete')
        added = [e for e in log if e[1] == 'Added' and e[2] == N1]
        ctx.check(len(added) == 1, f'browser reported Added {len(added)} times for the registered instance')
        ctx.check(not [e for e in log if e[1] == 'Removed'], 'browser reported Removed although the service is registered')
        for linfo, task in lookups:
            ctx.check(task.done() and task._res is True, 'lookup from the Added callback did not resolve the service')
            if task.done() and task._res is True and linfo.name == N1:
                ctx.check(linfo.port == 80 and linfo.server == 'alpha.local.' and [a.packed for a in linfo._ipv4_addresses] == [V4A], 'lookup resolved wrong host / port / addresses')
                ctx.check(linfo.text == svc.text, 'lookup resolved wrong TXT')
        if shape.get('third_host'):
            for who, lg, want in (('second browser', log_c, [N1]), ('first browser', log, [N1, N3])):
                for nm in want:
                    ctx.check(len([e for e in lg if e[1] == 'Added' and e[2] == nm]) == 1, f'{who}: {nm} not reported Added exactly once')
                ctx.check(not [e for e in lg if e[1] == 'Removed'], f'{who} reported Removed although everything is registered')
            for linfo, task in lookups_c + lookups:
                ctx.check(task.done() and task._res is True, 'a lookup from an Added callback did not resolve')
                if task.done() and task._res is True and linfo.name == N3:
                    ctx.check(linfo.port == 8083 and linfo.server == 'gamma.local.' and [a.packed for a in linfo._ipv4_addresses] == [V4C], 'lookup of the third host\'s service resolved wrong host / port / addresses')
        if shape.get('update'):
            # the service is updated (new port and TXT): the set of instances does not change, a fresh lookup sees the new data
            svc2 = Svc('S1', T1, N1, 'alpha.local.', 8088, [V4A], [], text=b'\x06path=/')
            info = svc2.info()
            upd = loop.create_task(za.async_update_service(info))
            loop.advance_by(3000)
            ctx.check(upd.done() and upd._exc is None, 'update did not complete')
            ctx.check(len([e for e in log if e[1] == 'Added' and e[2] == N1]) == 1 and not [e for e in log if e[1] == 'Removed'], 'an update changed the set of reported instances')
            fresh = AsyncServiceInfo(T1, N1)
            ft = loop.create_task(fresh.async_request(zb, 3000))
            loop.advance_by(3100)
            ctx.check(ft.done() and ft._res is True and fresh.port == 8088 and fresh.text == svc2.text, 'a lookup after the update does not resolve the updated port / TXT')
            if shape.get('late_host'):
                # a host that joins only now (empty cache) has to learn the service from answers to its own queries
                zd = env.make_zc(loop)
                link.attach('10.0.0.4', zd)
                zd.engine._async_schedule_next_cache_cleanup()
                log_d: List[Any] = []
                lookups_d: List[Any] = []
                AsyncServiceBrowser(zd, T1, listener=L(loop, log_d, lookups_d))
                loop.advance_by(4000)
                ctx.check(len([e for e in log_d if e[1] == 'Added' and e[2] == N1]) == 1, 'a browser started after the update does not find the service')
                for linfo, task in lookups_d:
                    ctx.check(task.done() and task._res is True and linfo.port == 8088, 'a lookup on the late host does not resolve the updated service')
        # withdrawal
        if shape.get('drop_after_withdraw') is not None:
            link.drop = link.n + shape['drop_after_withdraw']
        if shape.get('close'):
            from zeroconf.asyncio import AsyncZeroconf

            un = loop.create_task(AsyncZeroconf(zc=za).async_close())
        else:
            un = loop.create_task(za.async_unregister_service(info))
        withdrawn = loop.now_ms
        loop.advance_to(withdrawn + 3000)
        removed = [e for e in log if e[1] == 'Removed' and e[2] == N1]
        ctx.check(len(removed) == 1, f'browser reported Removed {len(removed)} times after the service was withdrawn')
        ctx.check(len([e for e in log if e[1] == 'Added' and e[2] == N1]) == 1, 'the withdrawn service was reported Added again')
        ctx.check(log and [e for e in log if e[2] == N1][-1][1] == 'Removed', 'the browser ends up listing a withdrawn service')
        ctx.check(un.done() and un._exc is None, 'withdrawal did not complete')
        if shape.get('third_host'):
            ctx.check(len([e for e in log_c if e[1] == 'Removed' and e[2] == N1]) == 1, 'second browser: withdrawn service not reported Removed exactly once')
            ctx.check(not [e for e in log if e[1] == 'Removed' and e[2] == N3], 'first browser: a still-registered service was reported Removed')

    return fn


def obligations(tier: str) -> List[Obligation]:
    shapes = {'no-loss': {'symbolic': [3, 4]}}
    for k in range(0, 10):
        shapes[f'drop-{k}'] = {'drop': k, 'symbolic': [k + 1] if tier == 'quick' else [k + 1, k + 2]}
    for j in range(0, 3):
        shapes[f'drop-goodbye-{j}'] = {'drop_after_withdraw': j, 'symbolic': [1]}
    shapes['two-services-early-withdraw'] = {'second_service': True, 'early_withdraw': True, 'symbolic': []}
    for k in ((1, 4, 7) if tier == 'quick' else range(0, 10)):
        shapes[f'dup-{k}'] = {'dup': k, 'symbolic': [k + 1]}
    shapes['close-instead-of-unregister'] = {'close': True, 'symbolic': [3]}
    shapes['close-drop-goodbye-0'] = {'close': True, 'drop_after_withdraw': 0, 'symbolic': []}
    shapes['update-then-withdraw'] = {'update': True, 'symbolic': []}
    shapes['update-then-late-host'] = {'update': True, 'late_host': True, 'symbolic': []}
    shapes['three-hosts'] = {'third_host': True, 'symbolic': [2]}
    if tier == 'thorough':
        shapes['late-browser'] = {'browser_first': False, 'symbolic': [2]}
        shapes['three-hosts-drop-3'] = {'third_host': True, 'drop': 3, 'symbolic': [4]}
        shapes['three-hosts-drop-goodbye-1'] = {'third_host': True, 'drop_after_withdraw': 1, 'symbolic': []}
        shapes['update-drop-next'] = {'update': True, 'symbolic': [], 'drop_after_update': 0}
        shapes['close-drop-goodbye-2'] = {'close': True, 'drop_after_withdraw': 2, 'symbolic': []}
    return [Obligation(f'link[{k}]', make(v), 'link', {'name': k, **v}, timeout=300 if tier == 'quick' else 1200) for k, v in shapes.items()]


META = {
    'explanation': 'Smallest instance of the property only: two socket-less instances (one registers and later unregisters a service, one browses and looks the service up from its Added callback) on one fake '
    'loop, joined by a link that delivers each multicast datagram to both hosts; the delay of selected datagrams (0..100 ms) and the registration instant are z3 integers, one chosen datagram is dropped.',
    'functions': ['whole stack through AsyncListener.datagram_received on both hosts'],
    'bounds': {'hosts': 2, 'services': 1, 'symbolic delays': '1..2 datagrams per obligation', 'dropped datagram': 'each of the first ten, or each of the three goodbyes, one at a time', 'settling time': '6 s after registration starts, 3 s after withdrawal'},
    'outside': ['more than two hosts, more than one service / type, update and close, reordering among more than two datagrams, duplication, per-datagram delay symbolic for all datagrams at once'],
    'stubs': env.STUBS + ['datagrams are tokens converted to DNSIncoming objects at delivery; jitter draws pinned to their lower bound'],
    'float_sites': [],
    'assumptions': [],
}
